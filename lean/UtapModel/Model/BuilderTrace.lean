/- Reading a TraceBuilder log line into a `Call` of M-BUILD, and the canonical structural dump of the model's
   document (the same text `c08::structDump` prints for the real `UTAP::Document`).  Core Lean only. -/
import UtapModel.Model.Builder

namespace UtapModel.Builder

/-! ### tokens of the trace -/

def hexVal (c : Char) : Nat :=
  if '0' ≤ c ∧ c ≤ '9' then c.toNat - '0'.toNat
  else if 'a' ≤ c ∧ c ≤ 'f' then c.toNat - 'a'.toNat + 10
  else if 'A' ≤ c ∧ c ≤ 'F' then c.toNat - 'A'.toNat + 10 else 0

/-- `"ab\x20c"` ↦ `ab c`; `null` ↦ "" -/
def unquote (tok : String) : String :=
  let rec go : List Char → List Char → List Char
    | [], acc => acc.reverse
    | '\\' :: 'x' :: a :: b :: rest, acc => go rest (Char.ofNat (hexVal a * 16 + hexVal b) :: acc)
    | c :: rest, acc => go rest (c :: acc)
  match tok.toList with
  | '"' :: rest => String.ofList (go (rest.dropLast) [])
  | _ => ""

def hexDigit (n : Nat) : Char := if n < 10 then Char.ofNat (n + 48) else Char.ofNat (n - 10 + 97)

/-- the quoting of `c08::q` (harness/c08_trace.hpp) -/
def quoteTok (s : String) : String :=
  let body := s.toList.foldl (fun acc c =>
    let n := c.toNat
    if n ≤ 32 ∨ n > 126 ∨ c = '"' ∨ c = '\\' then acc ++ ['\\', 'x', hexDigit (n / 16 % 16), hexDigit (n % 16)] else acc ++ [c]) []
  "\"" ++ String.ofList body ++ "\""

def natArg (args : List String) (i : Nat) : Nat := (args.getD i "0").toNat?.getD 0
def strArg (args : List String) (i : Nat) : String := unquote (args.getD i "")
def boolArg (args : List String) (i : Nat) : Bool := natArg args i != 0

/-- callback name + printed arguments ↦ model call; `none` = a callback M-BUILD has no clause for (the driver then
    takes its effect on the expression stack from the observed size and reports the name). -/
def Call.ofTrace (name : String) (a : List String) : Option Call :=
  match name with
  | "handle_error" => some .handleError
  | "handle_warning" => some .handleWarning
  | "expr_true" | "expr_false" | "expr_double" | "expr_string" | "expr_nat" | "expr_deadlock" | "expr_exit"
  | "chan_priority_default" => some (.frag 0 1)
  | "expr_identifier" => some (.exprIdentifier (strArg a 0))
  | "expr_location" | "expr_dot" | "expr_post_increment" | "expr_pre_increment" | "expr_post_decrement" | "expr_pre_decrement"
  | "expr_unary" | "expr_builtin_function1" | "expr_numof" | "expr_MITL_formula" | "expr_MITL_next" | "expr_MITL_atom"
  | "expr_MITL_diamond" | "expr_MITL_box" => some (.frag 1 1)
  | "expr_call_begin" | "decl_field_init" | "empty_statement" | "for_begin" | "while_begin" | "do_while_begin" | "if_begin"
  | "if_condition" | "if_then" | "proc_priority_inc" | "proc_priority" | "process_list_end" | "done" | "query_begin" | "query_formula"
  | "query_comment" | "query_options" | "query_end" | "expectation_begin" | "expectation_end" | "expectation_value" | "expect_resource"
  | "query_results_begin" | "query_results_end" | "model_option" => some (.frag 0 0)
  | "expr_call_end" | "expr_spawn" => some (.frag (natArg a 0 + 1) 1)
  | "expr_array" | "expr_assignment" | "expr_binary" | "expr_comma" | "expr_builtin_function2" | "expr_MITL_until" | "expr_MITL_release"
  | "expr_MITL_disj" | "expr_MITL_conj" => some (.frag 2 1)
  | "expr_nary" => some (.frag (natArg a 1) 1)
  | "decl_init_list" => some (.frag (natArg a 0) 1)
  | "expr_ternary" | "expr_inline_if" | "expr_builtin_function3" => some (.frag 3 1)
  | "expr_forall_begin" | "expr_exists_begin" | "expr_sum_begin" => some (.quantBegin (strArg a 0))
  | "expr_forall_end" | "expr_exists_end" | "expr_sum_end" => some .quantEnd
  | "expr_forall_dynamic_begin" | "expr_exists_dynamic_begin" | "expr_sum_dynamic_begin" | "expr_foreach_dynamic_begin" =>
    some (.dynQuantBegin (strArg a 0))
  | "expr_forall_dynamic_end" | "expr_exists_dynamic_end" | "expr_sum_dynamic_end" | "expr_foreach_dynamic_end" => some .dynQuantEnd
  | "type_duplicate" => some .typeDuplicate
  | "type_pop" => some .typePop
  | "type_int" => some (.typePrim (natArg a 0 != 1) 0 false)
  | "type_bool" | "type_double" | "type_clock" | "type_channel" | "type_void" => some (.typePrim false 0 false)
  | "type_string" => some (.typePrim false 0 (natArg a 0 != 1))
  | "type_bounded_int" => some (.typePrim true 2 false)
  | "type_scalar" => some (.typePrim true 1 false)
  | "type_name" => some (.typeName (strArg a 1))
  | "type_array_of_size" => some (.typeArrayOfSize (natArg a 0))
  | "type_array_of_type" => some (.typeArrayOfType (natArg a 0))
  | "type_struct" => some .typeStruct
  | "struct_field" => some .structField
  | "decl_typedef" => some (.declTypedef (strArg a 0))
  | "decl_var" => some (.declVar (strArg a 0) (boolArg a 1))
  | "decl_parameter" => some (.declParameter (strArg a 0))
  | "decl_func_begin" => some (.declFuncBegin (strArg a 0))
  | "decl_func_end" => some .declFuncEnd
  | "decl_external_func" => some (.declExternalFunc (strArg a 1))
  | "decl_dynamic_template" => some (.declDynamicTemplate (strArg a 0))
  | "decl_progress" => some (.frag (1 + natArg a 0) 0)
  | "block_begin" => some .blockBegin
  | "block_end" => some .blockEnd
  | "iteration_begin" => some (.iterationBegin (strArg a 0))
  | "iteration_end" => some .iterationEnd
  | "for_end" => some (.frag 3 0)
  | "while_end" | "do_while_end" | "if_end" | "expr_statement" | "assert_statement" | "before_update" | "after_update"
  | "chan_priority_begin" | "chan_priority_add" => some (.frag 1 0)
  | "return_statement" => some (.returnStatement (boolArg a 0))
  | "proc_begin" => some (.procBegin (strArg a 0) (boolArg a 1))
  | "proc_end" => some .procEnd
  | "proc_location" => some (.procLocation (strArg a 0) (boolArg a 1) (boolArg a 2))
  | "proc_location_commit" => some (.procLocationCommit (strArg a 0))
  | "proc_location_urgent" => some (.procLocationUrgent (strArg a 0))
  | "proc_location_init" => some (.procLocationInit (strArg a 0))
  | "proc_branchpoint" => some (.procBranchpoint (strArg a 0))
  | "proc_edge_begin" => some (.procEdgeBegin (strArg a 0) (strArg a 1) (boolArg a 2))
  | "proc_edge_end" => some .procEdgeEnd
  | "proc_select" => some (.procSelect (strArg a 0))
  | "proc_guard" => some .procGuard
  | "proc_sync" => some .procSync
  | "proc_update" => some .procUpdate
  | "proc_prob" => some .procProb
  | "gantt_decl_begin" => some .ganttDeclBegin
  | "gantt_decl_select" | "gantt_entry_select" => some (.ganttSelect (strArg a 0))
  | "gantt_decl_end" => some .ganttDeclEnd
  | "gantt_entry_begin" => some .ganttEntryBegin
  | "gantt_entry_end" => some .ganttEntryEnd
  | "instance_name_begin" => some .instanceNameBegin
  | "instance_name_end" => some (.instanceNameEnd (natArg a 1))
  | "instantiation_begin" => some (.instantiationBegin (strArg a 0) (strArg a 2))
  | "instantiation_end" => some (.instantiationEnd (strArg a 0) (strArg a 2) (natArg a 3))
  | "process" => some (.process (strArg a 0))
  | _ => none

/-! ### structural dump -/

def BState.nameOf (s : BState) (sid : SymId) : String :=
  match s.sym? sid with
  | some sym => quoteTok sym.name
  | none => "?"

def joinWith (sep : String) (xs : List String) : String := sep.intercalate xs

def BState.frameNames (s : BState) (sids : List SymId) : String := "[" ++ joinWith "," (sids.map s.nameOf) ++ "]"

def b01 (b : Bool) : String := if b then "1" else "0"

def enumFrom {α} (n : Nat) : List α → List (Nat × α)
  | [] => []
  | x :: xs => (n, x) :: enumFrom (n + 1) xs

def BState.dumpDecls (s : BState) (d : DRef) : String :=
  " vars=" ++ s.frameNames ((s.doc.vars.filter (fun v => v.owner == .decl d)).map (·.uid)) ++ " funs=[" ++
    joinWith "," (((enumFrom 0 s.doc.funs).filter (fun p => p.2.owner == d)).map (fun p =>
      s.nameOf p.2.uid ++ "{" ++ joinWith "," ((s.doc.vars.filter (fun v => v.owner == .func p.1)).map (fun v => s.nameOf v.uid)) ++ "}")) ++ "]"

def STy.arity : STy → Nat
  | .inst a | .lscInst a | .process a | .processSet a => a
  | _ => 0

def BState.arityOf (s : BState) (sid : SymId) : Nat :=
  match s.sym? sid with
  | some sym => sym.ty.arity
  | none => 0

def BState.endpointStr (s : BState) (t : Nat) (loc bp : Option Obj) : String :=
  match loc, bp with
  | some (.loc i), _ => (match s.doc.locs[i]? with
      | some l => if l.templ = t then s!"L#{l.nr}" else "L?"
      | none => "L?")
  | some _, _ => "L?"
  | none, some (.bp i) => (match s.doc.bps[i]? with
      | some b => if b.templ = t then s!"B#{b.nr}" else "B?"
      | none => "B?")
  | none, some _ => "B?"
  | none, none => "NONE"

def BState.dumpTempl (s : BState) (t : Nat) (T : Templ) : List String :=
  let locFlags (sid : SymId) : String :=
    match s.sym? sid with
    | some ⟨_, .location u c, _⟩ => s!" u={b01 u} c={b01 c}"
    | _ => " u=0 c=0"
  [s!"template {s.nameOf T.inst.uid} dyn={b01 T.dynamic} isTA={b01 T.isTA} params={s.frameNames T.inst.params} unbound={T.inst.unbound} arguments={T.inst.arguments} arity={s.arityOf T.inst.uid} init=" ++
    (match T.init with
     | some sid => s.nameOf sid
     | none => "NONE") ++ s.dumpDecls (.templ t)]
  ++ (s.doc.locs.filter (·.templ = t)).map (fun l => s!"  loc {s.nameOf l.uid} nr={l.nr}{locFlags l.uid} inv={b01 l.hasInv} er={b01 l.hasEr}")
  ++ (s.doc.bps.filter (·.templ = t)).map (fun b => s!"  bp {s.nameOf b.uid} nr={b.nr}")
  ++ T.edges.map (fun e => s!"  edge nr={e.nr} {s.endpointStr t e.src e.srcb} -> {s.endpointStr t e.dst e.dstb} control={b01 e.control} select={s.frameNames (s.frameD e.select).syms} sync={b01 (e.sync != 0)}")

def BState.dumpInst (s : BState) (tag : String) (I : Inst) : String :=
  let mapped := (List.range I.params.length).filter (fun i => match I.params[i]? with
    | some p => I.mapping.any (fun kv => kv.1 = p)
    | none => false)
  s!"{tag} {s.nameOf I.uid} templ=" ++
    (match I.templ.bind (fun t => s.doc.templates[t]?) with
     | some T => s.nameOf T.inst.uid
     | none => "NONE") ++
    s!" unbound={I.unbound} arguments={I.arguments} params={s.frameNames I.params} mapped=[{joinWith "," (mapped.map toString)}] arity={s.arityOf I.uid}"

def BState.dump (s : BState) : List String :=
  let ts := enumFrom 0 s.doc.templates
  ["globals" ++ s.dumpDecls .glob]
  ++ ((ts.filter (fun p => !p.2.dynamic)).map (fun p => s.dumpTempl p.1 p.2)).flatten
  ++ ((ts.filter (fun p => p.2.dynamic)).map (fun p => s.dumpTempl p.1 p.2)).flatten
  ++ (s.doc.insts.filter (·.kind == .inst)).map (s.dumpInst "instance")
  ++ (s.doc.insts.filter (·.kind == .lsc)).map (s.dumpInst "lscinstance")
  ++ (s.doc.insts.filter (·.kind == .proc)).map (s.dumpInst "process")

end UtapModel.Builder
