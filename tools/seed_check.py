#!/usr/bin/env python3
"""tools/seed_check.py <seed dir>  -- the check that must catch a saved seeded change: the property it is filed under, unless the changed
code is owned by another property's check (meta.json: confirmed_by_integrator.check)"""
import json, os, sys
d = sys.argv[1].rstrip("/")
m = json.load(open(os.path.join(d, "meta.json")))
print(m.get("confirmed_by_integrator", {}).get("check", os.path.basename(d).split("-")[0]))
