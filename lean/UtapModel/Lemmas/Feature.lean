/- Helper lemmas for Props/C17.lean (about Model/Feature.lean). Core Lean only. -/
import UtapModel.Model.Feature

namespace UtapModel.Feature

/-! ### positions produced by `walk` -/

mutual
theorem walk_false_root : ∀ (c : Bool) (e : FExpr) (pe : Pos × FExpr), pe ∈ walk false c e → pe.1.root = false
  | _, .empty, pe, h => by simp [walk] at h
  | c, .node k f v sub, pe, h => by
    simp only [walk, List.mem_cons] at h
    rcases h with h | h
    · subst h; rfl
    · exact walkL_root _ sub pe h
theorem walkL_root : ∀ (c : Bool) (es : List FExpr) (pe : Pos × FExpr), pe ∈ walkL c es → pe.1.root = false
  | _, [], pe, h => by simp [walkL] at h
  | c, e :: es, pe, h => by
    simp only [walkL, List.mem_append] at h
    rcases h with h | h
    · exact walk_false_root c e pe h
    · exact walkL_root c es pe h
end

/-- the only occurrence at the root position is the constraint itself -/
theorem walk_root (c : Bool) (e : FExpr) (pe : Pos × FExpr) (h : pe ∈ walk true c e) (hr : pe.1.root = true) : pe.2 = e := by
  cases e with
  | empty => simp [walk] at h
  | node k f v sub =>
    simp only [walk, List.mem_cons] at h
    rcases h with h | h
    · subst h; rfl
    · have := walkL_root _ sub pe h
      rw [this] at hr; cases hr

mutual
theorem walk_conj_false : ∀ (r : Bool) (e : FExpr) (pe : Pos × FExpr), pe ∈ walk r false e → pe.1.conj = false
  | _, .empty, pe, h => by simp [walk] at h
  | r, .node k f v sub, pe, h => by
    simp only [walk, List.mem_cons, Bool.false_and] at h
    rcases h with h | h
    · subst h; rfl
    · exact walkL_conj_false sub pe h
theorem walkL_conj_false : ∀ (es : List FExpr) (pe : Pos × FExpr), pe ∈ walkL false es → pe.1.conj = false
  | [], pe, h => by simp [walkL] at h
  | e :: es, pe, h => by
    simp only [walkL, List.mem_append] at h
    rcases h with h | h
    · exact walk_conj_false false e pe h
    · exact walkL_conj_false es pe h
end

theorem walk_nonempty (r c : Bool) (e : FExpr) (pe : Pos × FExpr) (h : pe ∈ walk r c e) : e.isEmpty = false := by
  cases e with
  | empty => simp [walk] at h
  | node => rfl

/-! ### uses_fp sees every floating-point sub-expression -/

mutual
theorem usesFp_of_occ (fp : List Kind) : ∀ (r c : Bool) (e : FExpr) (pe : Pos × FExpr),
    pe ∈ walk r c e → pe.2.isDouble = true → usesFp fp e = true
  | _, _, .empty, pe, h, _ => by simp [walk] at h
  | r, c, .node k f v sub, pe, h, hd => by
    simp only [walk, List.mem_cons] at h
    rcases h with h | h
    · subst h
      simp only [FExpr.isDouble, FExpr.flags] at hd
      simp [usesFp, hd]
    · have := usesFpL_of_occ fp _ sub pe h hd
      simp [usesFp, this]
theorem usesFpL_of_occ (fp : List Kind) : ∀ (c : Bool) (es : List FExpr) (pe : Pos × FExpr),
    pe ∈ walkL c es → pe.2.isDouble = true → usesFpL fp es = true
  | _, [], pe, h, _ => by simp [walkL] at h
  | c, e :: es, pe, h, hd => by
    simp only [walkL, List.mem_append] at h
    rcases h with h | h
    · have := usesFp_of_occ fp false c e pe h hd
      simp [usesFpL, this]
    · have := usesFpL_of_occ fp c es pe h hd
      simp [usesFpL, this]
end

theorem usesFp_of_isDouble (fp : List Kind) (e : FExpr) (h : e.isDouble = true) : usesFp fp e = true := by
  cases e with
  | empty => simp [FExpr.isDouble, FExpr.flags] at h
  | node k f v sub =>
    simp only [FExpr.isDouble, FExpr.flags] at h
    simp [usesFp, h]

/-- `uses_fp` is true of every operand the statement calls a floating-point value -/
theorem usesFp_of_hasFp (fp : List Kind) (e : FExpr) (h : hasFp e = true) : usesFp fp e = true := by
  simp only [hasFp, List.any_eq_true] at h
  obtain ⟨pe, hpe, hd⟩ := h
  exact usesFp_of_occ fp true true e pe hpe hd

/-! ### the recursive guard walk reaches every sub-expression -/

mutual
theorem guardHitRec_of_occ (cfg : Cfg) : ∀ (r c : Bool) (e : FExpr) (pe : Pos × FExpr),
    pe ∈ walk r c e → guardHitAt cfg pe.2 = true → guardHitRec cfg e = true
  | _, _, .empty, pe, h, _ => by simp [walk] at h
  | r, c, .node k f v sub, pe, h, hd => by
    simp only [walk, List.mem_cons] at h
    rcases h with h | h
    · subst h
      simp [guardHitRec, hd]
    · have := guardHitRecL_of_occ cfg _ sub pe h hd
      simp [guardHitRec, this]
theorem guardHitRecL_of_occ (cfg : Cfg) : ∀ (c : Bool) (es : List FExpr) (pe : Pos × FExpr),
    pe ∈ walkL c es → guardHitAt cfg pe.2 = true → guardHitRecL cfg es = true
  | _, [], pe, h, _ => by simp [walkL] at h
  | c, e :: es, pe, h, hd => by
    simp only [walkL, List.mem_append] at h
    rcases h with h | h
    · have := guardHitRec_of_occ cfg false c e pe h hd
      simp [guardHitRecL, this]
    · have := guardHitRecL_of_occ cfg c es pe h hd
      simp [guardHitRecL, this]
end

/-- a clock/floating-point comparison whose operator is among the inspected kinds is hit by the `case` body -/
theorem guardHitAt_of_cmp (cfg : Cfg) (e : FExpr) (h : isCmpClockFp e = true) (hk : cfg.guardKinds.contains (opOf e) = true) :
    guardHitAt cfg e = true := by
  match e, h with
  | .node k f v [a, b], h =>
    simp only [isCmpClockFp, Bool.and_eq_true, Bool.or_eq_true, Bool.not_eq_true'] at h
    obtain ⟨⟨⟨_, ha⟩, hb⟩, hab⟩ := h
    have hfp : usesFpL cfg.fpKinds [a, b] = true := by
      rcases hab with ⟨_, hd⟩ | ⟨hd, _⟩
      · simp [usesFpL, usesFp_of_hasFp cfg.fpKinds b hd]
      · simp [usesFpL, usesFp_of_hasFp cfg.fpKinds a hd]
    simp only [opOf] at hk
    simp only [guardHitAt, hk, FExpr.arg, List.getD_cons_zero, List.getD_cons_succ, ha, hb, hfp]
    simp

/-- visitGuard hits a comparison at a position the configuration inspects -/
theorem visitGuard_of_cmp (cfg : Cfg) (g : FExpr) (pe : Pos × FExpr) (h : pe ∈ occs g) (hc : isCmpClockFp pe.2 = true)
    (hk : cfg.guardKinds.contains (opOf pe.2) = true) (hp : pe.1.root = true ∨ cfg.guardRecursive = true) :
    visitGuard cfg g = true := by
  have hit := guardHitAt_of_cmp cfg pe.2 hc hk
  unfold visitGuard
  by_cases hrec : cfg.guardRecursive = true
  · simp only [hrec, if_true]
    exact guardHitRec_of_occ cfg true true g pe h hit
  · rcases hp with hp | hp
    · have := walk_root true g pe h hp
      simp only [hrec]
      rw [← this]; exact hit
    · exact absurd hp hrec

/-! ### updates -/

mutual
theorem visitAssignment_of_elem (cfg : Cfg) : ∀ (u a : FExpr), a ∈ updateElems u → visitAssignment cfg a = true →
    visitAssignment cfg u = true
  | .empty, a, h, _ => by simp [updateElems] at h
  | .node k f v sub, a, h, ha => by
    unfold updateElems at h
    by_cases hk : (k == Kind.kCOMMA) = true
    · simp only [hk, if_true] at h
      have hne : (k == Kind.kASSIGN) = false := by
        have : k = Kind.kCOMMA := by simpa using hk
        subst this; decide
      have := visitAssignmentL_of_elem cfg sub a h ha
      simp [visitAssignment, hne, hk, this]
    · simp only [hk] at h
      simp only [Bool.false_eq_true, if_false, List.mem_singleton] at h
      subst h; exact ha
theorem visitAssignmentL_of_elem (cfg : Cfg) : ∀ (es : List FExpr) (a : FExpr), a ∈ updateElemsL es →
    visitAssignment cfg a = true → visitAssignmentL cfg es = true
  | [], a, h, _ => by simp [updateElemsL] at h
  | e :: es, a, h, ha => by
    simp only [updateElemsL, List.mem_append] at h
    rcases h with h | h
    · have := visitAssignment_of_elem cfg e a h ha
      simp [visitAssignmentL, this]
    · have := visitAssignmentL_of_elem cfg es a h ha
      simp [visitAssignmentL, this]
end

theorem visitAssignment_of_assignFp (cfg : Cfg) (a : FExpr) (h : isAssignFp a = true)
    (hd : detects cfg (.assign (usesHybrid a)) = true) : visitAssignment cfg a = true := by
  match a, h with
  | .node k f v [l, r], h =>
    simp only [isAssignFp, Bool.and_eq_true, Bool.not_eq_true'] at h
    obtain ⟨⟨hk, hl⟩, hr⟩ := h
    have hfp : usesFp cfg.fpKinds (.node k f v [l, r]) = true := by
      simp [usesFp, usesFpL, usesFp_of_hasFp cfg.fpKinds r hr]
    simp only [detects, Bool.or_eq_true, Bool.not_eq_true'] at hd
    unfold visitAssignment
    simp only [hk, if_true, hfp, Bool.true_and]
    by_cases ht : cfg.assignHybridTargetOnly = true
    · have : FExpr.arg [l, r] 0 = l := rfl
      simp [ht, this, hl]
    · rcases hd with hd | hd
      · simp [ht, hd]
      · exact absurd hd ht

/-! ### initialisers -/

theorem visitVariable_of_initFp (cfg : Cfg) (f : SymFlags) (init : FExpr) (h : isInitFp f init = true)
    (hd : detects cfg (.init (!f.clkD)) = true) : visitVariable cfg f init = true := by
  simp only [isInitFp, hasFp, Bool.and_eq_true, List.any_eq_true] at h
  obtain ⟨hc, pe, hpe, hdbl⟩ := h
  have hne := walk_nonempty true true init pe hpe
  have hfp := usesFp_of_occ cfg.fpKinds true true init pe hpe hdbl
  simp only [detects, Bool.or_eq_true, Bool.not_not] at hd
  unfold visitVariable
  by_cases ht : cfg.initThroughArrays = true
  · simp [ht, hc, hne, hfp]
  · rcases hd with hd | hd
    · simp [ht, hd, hne, hfp]
    · exact absurd hd ht

/-! ### rates -/

/-- `isRateDisallowedInSymbolic` at one node -/
def rateAt (cfg : Cfg) : FExpr → Option Bool
  | .empty => some false
  | .node k _ _ sub => if k == .kEQ then rateAtEq cfg sub else some false

theorem rateScanL_ne_false_of_mem (cfg : Cfg) : ∀ (es : List FExpr) (e : FExpr), e ∈ es → rateScan cfg e ≠ some false →
    rateScanL cfg es ≠ some false
  | [], e, h, _ => by simp at h
  | x :: xs, e, h, hne => by
    simp only [List.mem_cons] at h
    unfold rateScanL
    rcases h with h | h
    · subst h
      match hx : rateScan cfg e with
      | none => simp
      | some true => simp
      | some false => exact absurd hx hne
    · have ih := rateScanL_ne_false_of_mem cfg xs e h hne
      match hx : rateScan cfg x with
      | none => simp
      | some true => simp
      | some false => simpa using ih

mutual
theorem rateScan_of_conj (cfg : Cfg) : ∀ (r : Bool) (e : FExpr) (pe : Pos × FExpr),
    pe ∈ walk r true e → pe.1.conj = true → rateAt cfg pe.2 = some true → rateScan cfg e ≠ some false
  | _, .empty, pe, h, _, _ => by simp [walk] at h
  | r, .node k f v sub, pe, h, hc, hr => by
    simp only [walk, List.mem_cons, Bool.true_and] at h
    rcases h with h | h
    · subst h
      simp only [rateAt] at hr
      by_cases hk : (k == Kind.kEQ) = true
      · simp only [hk, if_true] at hr
        simp [rateScan, hk, hr]
      · simp [hk] at hr
    · by_cases hand : (k == Kind.kAND) = true
      · have hne : (k == Kind.kEQ) = false := by
          have : k = Kind.kAND := by simpa using hand
          subst this; decide
        simp only [hand] at h
        have := rateScanL_of_conj cfg sub pe h hc hr
        simpa [rateScan, hne, hand] using this
      · have hf : (k == Kind.kAND) = false := by simpa using hand
        rw [hf] at h
        have := walkL_conj_false sub pe h
        rw [this] at hc; cases hc
theorem rateScanL_of_conj (cfg : Cfg) : ∀ (es : List FExpr) (pe : Pos × FExpr),
    pe ∈ walkL true es → pe.1.conj = true → rateAt cfg pe.2 = some true → rateScanL cfg es ≠ some false
  | [], pe, h, _, _ => by simp [walkL] at h
  | e :: es, pe, h, hc, hr => by
    simp only [walkL, List.mem_append] at h
    rcases h with h | h
    · have := rateScan_of_conj cfg false e pe h hc hr
      exact rateScanL_ne_false_of_mem cfg (e :: es) e (List.mem_cons_self) this
    · have ih := rateScanL_of_conj cfg es pe h hc hr
      unfold rateScanL
      match hx : rateScan cfg e with
      | none => simp
      | some true => simp
      | some false => simpa using ih
end

/-- a literal rate other than 0/1 on a non-hybrid clock makes `isRateDisallowedInSymbolic` answer `true` at that node,
    unless it is a floating-point literal and the checker does not handle those -/
theorem rateAt_of_badRate (cfg : Cfg) (e : FExpr) (h : isBadRate e = true)
    (hd : isDblRate e = false ∨ cfg.rateDoubleHandled = true) : rateAt cfg e = some true := by
  cases e with
  | empty => simp [isBadRate, rateSides] at h
  | node k f v sub =>
    simp only [isBadRate, isDblRate, rateSides] at h hd
    by_cases hk : (k == Kind.kEQ) = true
    · simp only [hk, if_true] at h hd
      simp only [rateAt, hk, if_true, rateAtEq]
      by_cases ha : (FExpr.arg sub 0).kindIs Kind.kRATE = true
      · simp only [ha, if_true, Bool.and_eq_true] at h hd
        simp only [nonHybridRate, constOther, Bool.and_eq_true, Bool.not_eq_true'] at h
        obtain ⟨⟨_, hh⟩, hc, hv⟩ := h
        simp only [ha, Bool.true_or, if_true, hh, hc, Bool.not_true, Bool.false_eq_true, if_false]
        cases hval : (FExpr.arg sub 1).val with
        | none => simp [hval] at hv
        | int x => simp only [hval] at hv; simp [hv]
        | dbl t =>
          simp only [hval] at hv
          rcases hd with hd | hd
          · simp [nonHybridRate, ha, hh, isDblConst, hc, hval] at hd
          · simp [hd, hv]
      · have ha' : (FExpr.arg sub 0).kindIs Kind.kRATE = false := by simpa using ha
        by_cases hb : (FExpr.arg sub 1).kindIs Kind.kRATE = true
        · simp only [ha', hb, if_true, Bool.false_eq_true, if_false] at h hd
          simp only [nonHybridRate, constOther, Bool.and_eq_true, Bool.not_eq_true'] at h
          obtain ⟨⟨_, hh⟩, hc, hv⟩ := h
          simp only [ha', hb, Bool.false_or, if_true, Bool.false_eq_true, if_false, hh, hc, Bool.not_true]
          cases hval : (FExpr.arg sub 0).val with
          | none => simp [hval] at hv
          | int x => simp only [hval] at hv; simp [hv]
          | dbl t =>
            simp only [hval] at hv
            rcases hd with hd | hd
            · simp [nonHybridRate, hb, hh, isDblConst, hc, hval] at hd
            · simp [hd, hv]
        · have hb' : (FExpr.arg sub 1).kindIs Kind.kRATE = false := by simpa using hb
          simp [ha', hb'] at h
    · simp [hk] at h

/-- the checker throws only at a floating-point literal rate, and only if it does not handle those -/
theorem rateAtEq_none (cfg : Cfg) (k : Kind) (f : Flags) (v : CVal) (sub : List FExpr) (hk : (k == Kind.kEQ) = true)
    (h : rateAtEq cfg sub = none) : isDblRate (.node k f v sub) = true ∧ cfg.rateDoubleHandled = false := by
  simp only [rateAtEq] at h
  simp only [isDblRate, rateSides, hk, if_true]
  by_cases ha : (FExpr.arg sub 0).kindIs Kind.kRATE = true
  · simp only [ha, Bool.true_or, if_true] at h ⊢
    by_cases hh : (FExpr.arg (FExpr.arg sub 0).children 0).flags.symHyb = true
    · simp [hh] at h
    · have hh' : (FExpr.arg (FExpr.arg sub 0).children 0).flags.symHyb = false := by simpa using hh
      by_cases hc : (FExpr.arg sub 1).kindIs Kind.kCONSTANT = true
      · simp only [hh', hc, Bool.not_true, Bool.false_eq_true, if_false] at h
        cases hval : (FExpr.arg sub 1).val with
        | none => simp [hval] at h
        | int x => simp [hval] at h
        | dbl t =>
          simp only [hval] at h
          by_cases hd : cfg.rateDoubleHandled = true
          · simp [hd] at h
          · simp [nonHybridRate, ha, hh', isDblConst, hc, hval, hd]
      · simp [hh', hc] at h
  · have ha' : (FExpr.arg sub 0).kindIs Kind.kRATE = false := by simpa using ha
    by_cases hb : (FExpr.arg sub 1).kindIs Kind.kRATE = true
    · simp only [ha', hb, Bool.false_or, if_true, Bool.false_eq_true, if_false] at h ⊢
      by_cases hh : (FExpr.arg (FExpr.arg sub 1).children 0).flags.symHyb = true
      · simp [hh] at h
      · have hh' : (FExpr.arg (FExpr.arg sub 1).children 0).flags.symHyb = false := by simpa using hh
        by_cases hc : (FExpr.arg sub 0).kindIs Kind.kCONSTANT = true
        · simp only [hh', hc, Bool.not_true, Bool.false_eq_true, if_false] at h
          cases hval : (FExpr.arg sub 0).val with
          | none => simp [hval] at h
          | int x => simp [hval] at h
          | dbl t =>
            simp only [hval] at h
            by_cases hd : cfg.rateDoubleHandled = true
            · simp [hd] at h
            · simp [nonHybridRate, hb, hh', isDblConst, hc, hval, hd]
        · simp [hh', hc] at h
    · have hb' : (FExpr.arg sub 1).kindIs Kind.kRATE = false := by simpa using hb
      simp [ha', hb'] at h

mutual
theorem rateScan_none (cfg : Cfg) : ∀ (r c : Bool) (e : FExpr), rateScan cfg e = none →
    ∃ pe, pe ∈ walk r c e ∧ isDblRate pe.2 = true ∧ cfg.rateDoubleHandled = false
  | _, _, .empty, h => by simp [rateScan] at h
  | r, c, .node k f v sub, h => by
    unfold rateScan at h
    by_cases hk : (k == Kind.kEQ) = true
    · simp only [hk, if_true] at h
      have := rateAtEq_none cfg k f v sub hk h
      exact ⟨(⟨r, c⟩, .node k f v sub), by simp [walk], this.1, this.2⟩
    · simp only [hk, Bool.false_eq_true, if_false] at h
      by_cases hand : (k == Kind.kAND) = true
      · simp only [hand, if_true] at h
        obtain ⟨pe, hpe, h1, h2⟩ := rateScanL_none cfg (c && k == Kind.kAND) sub h
        exact ⟨pe, by simp only [walk, List.mem_cons]; exact Or.inr hpe, h1, h2⟩
      · simp [hand] at h
theorem rateScanL_none (cfg : Cfg) : ∀ (c : Bool) (es : List FExpr), rateScanL cfg es = none →
    ∃ pe, pe ∈ walkL c es ∧ isDblRate pe.2 = true ∧ cfg.rateDoubleHandled = false
  | _, [], h => by simp [rateScanL] at h
  | c, e :: es, h => by
    unfold rateScanL at h
    match hx : rateScan cfg e with
    | none =>
      obtain ⟨pe, hpe, h1, h2⟩ := rateScan_none cfg false c e hx
      exact ⟨pe, by simp only [walkL, List.mem_append]; exact Or.inl hpe, h1, h2⟩
    | some true => simp [hx] at h
    | some false =>
      simp only [hx] at h
      obtain ⟨pe, hpe, h1, h2⟩ := rateScanL_none cfg c es h
      exact ⟨pe, by simp only [walkL, List.mem_append]; exact Or.inr hpe, h1, h2⟩
end

end UtapModel.Feature
