/- Minimal S-expression reader (interchange format of the line-protocol drivers). Core Lean only. -/
namespace UtapModel

inductive Sexp where
  | atom (s : String)
  | list (l : List Sexp)
deriving Repr, Inhabited

namespace Sexp

partial def str : Sexp → String
  | .atom s => s
  | .list l => "(" ++ " ".intercalate (l.map str) ++ ")"

/-- tokens: `(`, `)`, bare atoms, and "quoted strings" (kept with their quotes removed, backslash escapes resolved) -/
partial def tokenize (cs : List Char) (acc : List String) : List String :=
  match cs with
  | [] => acc.reverse
  | c :: r =>
    if c == ' ' || c == '\t' || c == '\n' || c == '\r' then tokenize r acc
    else if c == '(' then tokenize r ("(" :: acc)
    else if c == ')' then tokenize r (")" :: acc)
    else if c == '"' then
      let rec go (cs : List Char) (buf : List Char) : List Char × List Char :=
        match cs with
        | [] => (buf.reverse, [])
        | '\\' :: x :: r => go r (x :: buf)
        | '"' :: r => (buf.reverse, r)
        | x :: r => go r (x :: buf)
      let (body, r') := go r []
      tokenize r' (("\"" ++ String.ofList body) :: acc)
    else
      let rec go2 (cs : List Char) (buf : List Char) : List Char × List Char :=
        match cs with
        | [] => (buf.reverse, [])
        | x :: r => if x == ' ' || x == '\t' || x == '(' || x == ')' || x == '\n' then (buf.reverse, x :: r) else go2 r (x :: buf)
      let (body, r') := go2 (c :: r) []
      tokenize r' (String.ofList body :: acc)

partial def parseList (ts : List String) (acc : List Sexp) : Option (List Sexp × List String) :=
  match ts with
  | [] => none
  | ")" :: r => some (acc.reverse, r)
  | "(" :: r =>
    match parseList r [] with
    | some (l, r') => parseList r' (.list l :: acc)
    | none => none
  | t :: r => parseList r (.atom (if t.startsWith "\"" then (t.drop 1).toString else t) :: acc)

def parse (s : String) : Option Sexp :=
  match tokenize s.toList [] with
  | "(" :: r => match parseList r [] with | some (l, []) => some (.list l) | _ => none
  | [t] => some (.atom (if t.startsWith "\"" then (t.drop 1).toString else t))
  | _ => none

end Sexp
end UtapModel
