/- Helper lemmas for Props/C07.lean: the frame-store machine refines the environment-stack semantics. -/
import UtapModel.Model.ScopeScript

namespace UtapModel.Builder

/-- scope denoted by a frame: its symbols as (name, id), latest first -/
def frameScope (syms : List Symbol) (f : Frame) : Scope := (f.syms.map (fun sid => (symName syms sid, sid))).reverse

theorem lookup_frameScope (syms : List Symbol) (f : Frame) (x : String) :
    f.lookup syms x = lookupScope x (frameScope syms f) := by
  unfold Frame.lookup lookupScope frameScope
  split
  · rfl
  · rw [← List.map_reverse, List.find?_map]
    cases h : List.find? ((fun d : String × Nat => decide (d.1 = x)) ∘ fun sid => (symName syms sid, sid)) f.syms.reverse with
    | none =>
      have : List.find? (fun sid => decide (symName syms sid = x)) f.syms.reverse = none := by
        simpa [Function.comp_def] using h
      simp [this]
    | some a =>
      have : List.find? (fun sid => decide (symName syms sid = x)) f.syms.reverse = some a := by
        simpa [Function.comp_def] using h
      simp [this]

/-- the frame stack is a chain of parent links ending in a root frame -/
def ChainOk (store : List Frame) : List FrameId → Prop
  | [] => False
  | [f] => ∃ fr, store[f]? = some fr ∧ fr.parent = none
  | f :: g :: rest => (∃ fr, store[f]? = some fr ∧ fr.parent = some g) ∧ ChainOk store (g :: rest)

/-- scopes[k] is the scope denoted by the k-th frame of the stack -/
def ScopesOk (syms : List Symbol) (store : List Frame) : List FrameId → List Scope → Prop
  | [], [] => True
  | f :: fs, sc :: scs => (∃ fr, store[f]? = some fr ∧ sc = frameScope syms fr) ∧ ScopesOk syms store fs scs
  | _, _ => False

theorem resolve_eq_lookup (syms : List Symbol) (store : List Frame) (x : String) :
    ∀ (stack : List FrameId) (scopes : List Scope) (fuel : Nat), ChainOk store stack → ScopesOk syms store stack scopes →
      stack.length ≤ fuel → resolveIn syms store fuel (stack.headD 0) x = lookupScopes x scopes := by
  intro stack
  induction stack with
  | nil => intro scopes fuel hc; exact absurd hc (by simp [ChainOk])
  | cons f fs ih =>
    intro scopes fuel hc hs hfuel
    cases scopes with
    | nil => simp [ScopesOk] at hs
    | cons sc scs =>
      obtain ⟨⟨fr, hfr, hsc⟩, hrest⟩ := hs
      cases fuel with
      | zero => simp at hfuel
      | succ fuel =>
        simp only [List.headD_cons, resolveIn, hfr, lookupScopes]
        rw [lookup_frameScope, ← hsc]
        cases hl : lookupScope x sc with
        | some d => rfl
        | none =>
          cases fs with
          | nil =>
            obtain ⟨fr', hfr', hp⟩ := hc
            rw [hfr] at hfr'; cases hfr'
            simp only [hp]
            cases scs with
            | nil => rfl
            | cons _ _ => simp [ScopesOk] at hrest
          | cons g rest =>
            obtain ⟨⟨fr', hfr', hp⟩, hc'⟩ := hc
            rw [hfr] at hfr'; cases hfr'
            simp only [hp]
            have := ih scs fuel hc' hrest (by simp at hfuel ⊢; omega)
            simpa using this


theorem symName_append {syms new : List Symbol} {sid : SymId} (h : sid < syms.length) : symName (syms ++ new) sid = symName syms sid := by
  unfold symName; rw [List.getElem?_append_left h]

theorem frameScope_append {syms new : List Symbol} {fr : Frame} (h : ∀ sid ∈ fr.syms, sid < syms.length) :
    frameScope (syms ++ new) fr = frameScope syms fr := by
  unfold frameScope
  congr 1
  apply List.map_congr_left
  intro sid hs
  rw [symName_append (h sid hs)]

theorem ScopesOk.congr {syms syms' : List Symbol} {store store' : List Frame} :
    ∀ {stack : List FrameId} {scopes : List Scope},
      (∀ f ∈ stack, ∀ fr, store[f]? = some fr → store'[f]? = some fr ∧ frameScope syms' fr = frameScope syms fr) →
      ScopesOk syms store stack scopes → ScopesOk syms' store' stack scopes := by
  intro stack
  induction stack with
  | nil => intro scopes _ h; cases scopes <;> simp [ScopesOk] at h ⊢
  | cons f fs ih =>
    intro scopes hcg h
    cases scopes with
    | nil => simp [ScopesOk] at h
    | cons sc scs =>
      obtain ⟨⟨fr, hfr, hsc⟩, hrest⟩ := h
      obtain ⟨h1, h2⟩ := hcg f List.mem_cons_self fr hfr
      exact ⟨⟨fr, h1, by rw [hsc, h2]⟩, ih (fun g hg => hcg g (List.mem_cons_of_mem _ hg)) hrest⟩

theorem ChainOk.congr {store store' : List Frame} :
    ∀ {stack : List FrameId},
      (∀ f ∈ stack, ∀ fr, store[f]? = some fr → ∃ fr', store'[f]? = some fr' ∧ fr'.parent = fr.parent) →
      ChainOk store stack → ChainOk store' stack := by
  intro stack
  induction stack with
  | nil => intro _ h; exact h
  | cons f fs ih =>
    intro hcg h
    cases fs with
    | nil =>
      obtain ⟨fr, hfr, hp⟩ := h
      obtain ⟨fr', h1, h2⟩ := hcg f List.mem_cons_self fr hfr
      exact ⟨fr', h1, by rw [h2, hp]⟩
    | cons g rest =>
      obtain ⟨⟨fr, hfr, hp⟩, hc⟩ := h
      obtain ⟨fr', h1, h2⟩ := hcg f List.mem_cons_self fr hfr
      exact ⟨⟨fr', h1, by rw [h2, hp]⟩, ih (fun g' hg => hcg g' (List.mem_cons_of_mem _ hg)) hc⟩

theorem ScopesOk.length {syms : List Symbol} {store : List Frame} : ∀ {stack : List FrameId} {scopes : List Scope},
    ScopesOk syms store stack scopes → stack.length = scopes.length := by
  intro stack
  induction stack with
  | nil => intro scopes h; cases scopes <;> simp [ScopesOk] at h ⊢
  | cons f fs ih =>
    intro scopes h
    cases scopes with
    | nil => simp [ScopesOk] at h
    | cons sc scs => simp [ih h.2]

theorem ChainOk.tail {store : List Frame} {f g : FrameId} {rest : List FrameId} (h : ChainOk store (f :: g :: rest)) :
    ChainOk store (g :: rest) := h.2

/-- the machine state denotes the environment `scopes`, `next` declarations made so far -/
structure Rel (s : SState) (scopes : List Scope) (next : Nat) : Prop where
  next_eq : next = s.syms.length
  chain : ChainOk s.store s.frames
  scopes_ok : ScopesOk s.syms s.store s.frames scopes
  sorted : s.frames.Pairwise (· > ·)
  bound : ∀ f ∈ s.frames, f < s.store.length
  sids : ∀ f ∈ s.frames, ∀ fr, s.store[f]? = some fr → ∀ sid ∈ fr.syms, sid < s.syms.length
  nodup : ∀ f ∈ s.frames, ∀ fr, s.store[f]? = some fr → fr.syms.Nodup

theorem Rel.init : Rel SState.init [[]] 0 := by
  refine ⟨rfl, ⟨⟨none, []⟩, rfl, rfl⟩, ⟨⟨⟨none, []⟩, rfl, rfl⟩, trivial⟩, by simp [SState.init], by simp [SState.init], ?_, ?_⟩
  · intro f hf fr hfr sid hs
    simp [SState.init] at hf hfr
    subst hf; simp at hfr; subst hfr; simp at hs
  · intro f hf fr hfr
    simp [SState.init] at hf hfr
    subst hf; simp at hfr; subst hfr; exact List.nodup_nil

theorem Rel.use {s : SState} {scopes : List Scope} {next : Nat} (h : Rel s scopes next) (x : String) :
    s.use x = lookupScopes x scopes := by
  unfold SState.use SState.top
  refine resolve_eq_lookup s.syms s.store x s.frames scopes _ h.chain h.scopes_ok ?_
  have : ∀ f ∈ s.frames, f < s.store.length := h.bound
  have hnd := h.sorted
  -- distinct ids below store.length: at most store.length of them
  have hlen : ∀ (l : List FrameId) (n : Nat), l.Pairwise (· > ·) → (∀ f ∈ l, f < n) → l.length ≤ n := by
    intro l
    induction l with
    | nil => intro n _ _; simp
    | cons a t ih =>
      intro n hp hb
      have ha : a < n := hb a List.mem_cons_self
      have hp' := List.pairwise_cons.mp hp
      have hth : t.length ≤ a := ih a hp'.2 (fun f hf => hp'.1 f hf)
      exact Nat.succ_le_of_lt (Nat.lt_of_le_of_lt hth ha)
  have := hlen s.frames s.store.length hnd this
  omega


theorem binderScope_eq (next : Nat) (bs : List String) (acc : Scope) :
    binderScope next bs acc = ((List.range bs.length).map (fun i => (bs.getD i "", next + i))).reverse ++ acc := by
  induction bs generalizing next acc with
  | nil => simp [binderScope]
  | cons b bs ih =>
    simp only [binderScope, ih, List.length_cons, List.range_succ_eq_map, List.map_cons, List.map_map, List.reverse_cons,
      List.append_assoc, List.singleton_append]
    congr 2
    · apply List.map_congr_left; intro i _; simp [Function.comp]; omega

theorem Rel.leave {s : SState} {sc : Scope} {scopes : List Scope} {next : Nat} (h : Rel s (sc :: scopes) next) (hne : scopes ≠ []) :
    Rel s.leave scopes next := by
  have hlen := h.scopes_ok.length
  cases hf : s.frames with
  | nil => rw [hf] at hlen; simp at hlen
  | cons f fs =>
    cases hfs : fs with
    | nil => rw [hf, hfs] at hlen; cases scopes <;> simp at hlen hne
    | cons g rest =>
      have hc := h.chain; have hs := h.scopes_ok; have hp := h.sorted; have hb := h.bound; have hsid := h.sids; have hnd := h.nodup
      rw [hf, hfs] at hc hs hp hb hsid hnd
      refine ⟨h.next_eq, ?_, ?_, ?_, ?_, ?_, ?_⟩ <;> simp only [SState.leave, hf, hfs, List.tail_cons]
      · exact hc.2
      · exact hs.2
      · exact (List.pairwise_cons.mp hp).2
      · exact fun f' hf' => hb f' (List.mem_cons_of_mem _ hf')
      · exact fun f' hf' => hsid f' (List.mem_cons_of_mem _ hf')
      · exact fun f' hf' => hnd f' (List.mem_cons_of_mem _ hf')

theorem Rel.declare {s : SState} {sc : Scope} {scopes : List Scope} {next : Nat} (h : Rel s (sc :: scopes) next) (x : String) :
    Rel (s.declare x) (((x, next) :: sc) :: scopes) (next + 1) := by
  have hlen := h.scopes_ok.length
  cases hf : s.frames with
  | nil => rw [hf] at hlen; simp at hlen
  | cons f fs =>
    have hc := h.chain; have hs := h.scopes_ok; have hp := h.sorted; have hb := h.bound; have hsid := h.sids; have hnd := h.nodup
    rw [hf] at hc hs hp hb hsid hnd
    obtain ⟨⟨fr, hfr, hsc⟩, hrest⟩ := hs
    have hnotin : ∀ g ∈ fs, g ≠ f := fun g hg => Nat.ne_of_lt ((List.pairwise_cons.mp hp).1 g hg)
    have htop : s.top = f := by simp [SState.top, hf]
    have hother : ∀ g, g ≠ f → (s.store.modify f (fun fr => { fr with syms := fr.syms ++ [s.syms.length] }))[g]? = s.store[g]? := by
      intro g hg
      rw [List.getElem?_modify]
      cases s.store[g]? <;> simp [Ne.symm hg]
    have hmod : (s.store.modify f (fun fr => { fr with syms := fr.syms ++ [s.syms.length] }))[f]? = some { fr with syms := fr.syms ++ [s.syms.length] } := by
      rw [List.getElem?_modify, hfr]; simp
    refine ⟨by simp [SState.declare, h.next_eq], ?_, ?_, ?_, ?_, ?_, ?_⟩ <;> simp only [SState.declare, hf, htop]
    · refine ChainOk.congr ?_ hc
      intro g hg fr' hfr'
      by_cases hgf : g = f
      · subst hgf; rw [hfr] at hfr'; cases hfr'; exact ⟨_, hmod, rfl⟩
      · exact ⟨fr', by rw [hother g hgf]; exact hfr', rfl⟩
    · refine ⟨⟨_, hmod, ?_⟩, ?_⟩
      · have hfs := frameScope_append (new := [⟨x, .var ⟨false⟩, none⟩]) (hsid f List.mem_cons_self fr hfr)
        unfold frameScope at hfs ⊢
        simp only [List.map_append, List.reverse_append, List.map_cons, List.map_nil, List.reverse_cons, List.reverse_nil, List.nil_append,
          List.singleton_append]
        rw [hfs, hsc, h.next_eq]
        simp [frameScope, symName]
      · refine ScopesOk.congr ?_ hrest
        intro g hg fr' hfr'
        exact ⟨by rw [hother g (hnotin g hg)]; exact hfr', frameScope_append (hsid g (List.mem_cons_of_mem _ hg) fr' hfr')⟩
    · exact hp
    · intro g hg; simp only [List.length_modify]; exact hb g hg
    · intro g hg fr' hfr' sid hsidm
      show sid < (s.syms ++ [(⟨x, .var ⟨false⟩, none⟩ : Symbol)]).length
      rw [List.length_append, List.length_singleton]
      by_cases hgf : g = f
      · subst hgf; rw [hmod] at hfr'; cases hfr'
        simp only [List.mem_append, List.mem_singleton] at hsidm
        rcases hsidm with h1 | h1
        · exact Nat.lt_succ_of_lt (hsid g List.mem_cons_self fr hfr sid h1)
        · rw [h1]; exact Nat.lt_succ_self _
      · rw [hother g hgf] at hfr'
        exact Nat.lt_succ_of_lt (hsid g hg fr' hfr' sid hsidm)
    · intro g hg fr' hfr'
      by_cases hgf : g = f
      · subst hgf; rw [hmod] at hfr'; cases hfr'
        refine List.nodup_append.mpr ⟨hnd g List.mem_cons_self fr hfr, by simp, ?_⟩
        intro a ha b hb' hab
        simp only [List.mem_singleton] at hb'
        have := hsid g List.mem_cons_self fr hfr a ha
        rw [hab, hb'] at this
        exact Nat.lt_irrefl _ this
      · rw [hother g hgf] at hfr'
        exact hnd g hg fr' hfr'


theorem symName_mkSyms (syms : List Symbol) (bs : List String) (i : Nat) (hi : i < bs.length) :
    symName (syms ++ mkSyms bs) (syms.length + i) = bs.getD i "" := by
  unfold symName mkSyms
  rw [List.getElem?_append_right (Nat.le_add_right _ _)]
  simp [hi, List.getD_eq_getElem?_getD]

theorem Rel.enter {s : SState} {scopes : List Scope} {next : Nat} (h : Rel s scopes next) (bs : List String) :
    Rel (s.enter bs) (binderScope next bs [] :: scopes) (next + bs.length) := by
  have hlen := h.scopes_ok.length
  have hold : ∀ g, g < s.store.length → ∀ (x : Frame), (s.store ++ [x])[g]? = s.store[g]? := by
    intro g hg x; exact List.getElem?_append_left hg
  cases hf : s.frames with
  | nil => have := h.chain; rw [hf] at this; exact absurd this (by simp [ChainOk])
  | cons f fs =>
    have hc := h.chain; have hs := h.scopes_ok; have hp := h.sorted; have hb := h.bound; have hsid := h.sids; have hnd := h.nodup
    rw [hf] at hc hs hp hb hsid hnd
    have htop : s.top = f := by simp [SState.top, hf]
    refine ⟨by simp [SState.enter, mkSyms, h.next_eq], ?_, ?_, ?_, ?_, ?_, ?_⟩ <;> simp only [SState.enter, hf, htop]
    · refine ⟨⟨_, List.getElem?_concat_length, rfl⟩, ?_⟩
      refine ChainOk.congr ?_ hc
      intro g hg fr hfr
      exact ⟨fr, by rw [hold g (hb g hg)]; exact hfr, rfl⟩
    · refine ⟨⟨_, List.getElem?_concat_length, ?_⟩, ?_⟩
      · rw [binderScope_eq, List.append_nil]
        unfold frameScope
        congr 1
        simp only [List.map_map]
        apply List.map_congr_left
        intro i hi
        simp only [List.mem_range] at hi
        simp [Function.comp, symName_mkSyms s.syms bs i hi, h.next_eq]
      · refine ScopesOk.congr ?_ hs
        intro g hg fr hfr
        exact ⟨by rw [hold g (hb g hg)]; exact hfr, frameScope_append (hsid g hg fr hfr)⟩
    · exact List.pairwise_cons.mpr ⟨fun g hg => hb g hg, hp⟩
    · intro g hg
      simp only [List.length_append, List.length_singleton]
      rcases List.mem_cons.mp hg with h1 | h1
      · rw [h1]; exact Nat.lt_succ_self _
      · exact Nat.lt_succ_of_lt (hb g h1)
    · intro g hg fr hfr sid hsidm
      show sid < (s.syms ++ mkSyms bs).length
      have hml : (mkSyms bs).length = bs.length := by simp [mkSyms]
      rw [List.length_append, hml]
      rcases List.mem_cons.mp hg with h1 | h1
      · subst h1
        rw [List.getElem?_concat_length] at hfr; cases hfr
        simp only [List.mem_map, List.mem_range] at hsidm
        obtain ⟨i, hi, he⟩ := hsidm
        rw [← he]; exact Nat.add_lt_add_left hi _
      · rw [hold g (hb g h1)] at hfr
        exact Nat.lt_of_lt_of_le (hsid g h1 fr hfr sid hsidm) (Nat.le_add_right _ _)
    · intro g hg fr hfr
      rcases List.mem_cons.mp hg with h1 | h1
      · subst h1
        rw [List.getElem?_concat_length] at hfr; cases hfr
        exact List.Pairwise.map _ (fun a b (hab : a ≠ b) hh => hab (Nat.add_left_cancel hh)) List.nodup_range
      · rw [hold g (hb g h1)] at hfr
        exact hnd g h1 fr hfr

/-- taking the symbol the lookup found out of a duplicate-free symbol list = withdrawing the latest entry of that name -/
theorem filter_ne_eq_eraseP (syms : List Symbol) (x : String) : ∀ (L : List SymId) (sid : SymId), L.Nodup →
    L.find? (fun s => symName syms s = x) = some sid →
    (L.filter (· ≠ sid)).map (fun s => (symName syms s, s)) = (L.map (fun s => (symName syms s, s))).eraseP (fun d => d.1 = x) := by
  intro L
  induction L with
  | nil => intro sid _ h; simp at h
  | cons a t ih =>
    intro sid hnd hfind
    have hnd' := List.nodup_cons.mp hnd
    by_cases hp : symName syms a = x
    · have : sid = a := by simpa [List.find?, hp] using hfind.symm
      subst this
      have hself : t.filter (· ≠ sid) = t := List.filter_eq_self.mpr (fun b hb => by
        have : b ≠ sid := fun hbs => hnd'.1 (hbs ▸ hb)
        simpa using this)
      rw [List.filter_cons_of_neg (by simp), hself, List.map_cons, List.eraseP_cons_of_pos (by simpa using hp)]
    · have hfind' : t.find? (fun s => symName syms s = x) = some sid := by simpa [List.find?, hp] using hfind
      have hsx : symName syms sid = x := by simpa using List.find?_some hfind'
      have hne : a ≠ sid := fun has => hp (has ▸ hsx)
      rw [List.filter_cons_of_pos (by simpa using hne), List.map_cons, List.map_cons, List.eraseP_cons_of_neg (by simpa using hp),
        ih sid hnd'.2 hfind']

theorem Rel.remove {s : SState} {sc : Scope} {scopes : List Scope} {next : Nat} (h : Rel s (sc :: scopes) next) (x : String) :
    Rel (s.remove x) (withdraw x sc :: scopes) next := by
  have hlen := h.scopes_ok.length
  cases hf : s.frames with
  | nil => rw [hf] at hlen; simp at hlen
  | cons f fs =>
    have hc := h.chain; have hs := h.scopes_ok; have hp := h.sorted; have hb := h.bound; have hsid := h.sids; have hnd := h.nodup
    rw [hf] at hc hs hp hb hsid hnd
    obtain ⟨⟨fr, hfr, hsc⟩, hrest⟩ := hs
    have hnotin : ∀ g ∈ fs, g ≠ f := fun g hg => Nat.ne_of_lt ((List.pairwise_cons.mp hp).1 g hg)
    have htop : s.top = f := by simp [SState.top, hf]
    cases hl : fr.lookup s.syms x with
    | none =>
      -- the top frame holds no symbol of that name: nothing is removed, and nothing is withdrawn
      have hrm : s.remove x = s := by simp [SState.remove, htop, hfr, hl]
      have hw : withdraw x sc = sc := by
        unfold withdraw
        split
        · rfl
        · rename_i hx
          apply List.eraseP_of_forall_not
          intro d hd
          have hls : lookupScope x sc = none := by rw [hsc, ← lookup_frameScope]; exact hl
          unfold lookupScope at hls
          simp only [hx, if_false, Option.map_eq_none_iff] at hls
          simpa using List.find?_eq_none.mp hls d hd
      rw [hrm, hw]
      exact ⟨h.next_eq, by rw [hf]; exact hc, by rw [hf]; exact ⟨⟨fr, hfr, hsc⟩, hrest⟩, by rw [hf]; exact hp, by rw [hf]; exact hb,
        by rw [hf]; exact hsid, by rw [hf]; exact hnd⟩
    | some sid =>
      have hx : x ≠ "" := by intro hx; simp [Frame.lookup, hx] at hl
      have hfind : fr.syms.reverse.find? (fun s' => symName s.syms s' = x) = some sid := by simpa [Frame.lookup, hx] using hl
      have hrm : s.remove x = { s with store := s.store.modify f (fun fr => { fr with syms := fr.syms.filter (· ≠ sid) }) } := by
        simp [SState.remove, htop, hfr, hl]
      have hother : ∀ g, g ≠ f → (s.store.modify f (fun fr => { fr with syms := fr.syms.filter (· ≠ sid) }))[g]? = s.store[g]? := by
        intro g hg
        rw [List.getElem?_modify]
        cases s.store[g]? <;> simp [Ne.symm hg]
      have hmod : (s.store.modify f (fun fr => { fr with syms := fr.syms.filter (· ≠ sid) }))[f]? = some { fr with syms := fr.syms.filter (· ≠ sid) } := by
        rw [List.getElem?_modify, hfr]; simp
      rw [hrm]
      refine ⟨h.next_eq, ?_, ?_, ?_, ?_, ?_, ?_⟩ <;> simp only [hf]
      · refine ChainOk.congr ?_ hc
        intro g hg fr' hfr'
        by_cases hgf : g = f
        · subst hgf; rw [hfr] at hfr'; cases hfr'; exact ⟨_, hmod, rfl⟩
        · exact ⟨fr', by rw [hother g hgf]; exact hfr', rfl⟩
      · refine ⟨⟨_, hmod, ?_⟩, ?_⟩
        · have := filter_ne_eq_eraseP s.syms x fr.syms.reverse sid (List.pairwise_reverse.mpr ((hnd f List.mem_cons_self fr hfr).imp Ne.symm)) hfind
          unfold withdraw
          simp only [hx, if_false]
          rw [hsc]
          unfold frameScope
          simp only [← List.map_reverse, ← List.filter_reverse]
          exact this.symm
        · refine ScopesOk.congr ?_ hrest
          intro g hg fr' hfr'
          exact ⟨by rw [hother g (hnotin g hg)]; exact hfr', rfl⟩
      · exact hp
      · intro g hg; simp only [List.length_modify]; exact hb g hg
      · intro g hg fr' hfr' sid' hsidm
        by_cases hgf : g = f
        · subst hgf; rw [hmod] at hfr'; cases hfr'
          exact hsid g List.mem_cons_self fr hfr sid' (List.mem_filter.mp hsidm).1
        · rw [hother g hgf] at hfr'
          exact hsid g hg fr' hfr' sid' hsidm
      · intro g hg fr' hfr'
        by_cases hgf : g = f
        · subst hgf; rw [hmod] at hfr'; cases hfr'
          exact List.Pairwise.filter _ (hnd g List.mem_cons_self fr hfr)
        · rw [hother g hgf] at hfr'
          exact hnd g hg fr' hfr'

/-- the refinement: from related states the two semantics produce the same bindings on every well-nested script -/
theorem impl_eq_spec : ∀ (evs : List Ev) (s : SState) (scopes : List Scope) (next : Nat) (d : Nat),
    Rel s scopes next → scopes.length = d + 1 → wellNested d evs = true → implRun s evs = specRun scopes next evs := by
  intro evs
  induction evs with
  | nil => intros; rfl
  | cons e r ih =>
    intro s scopes next d h hd hw
    cases e with
    | use x =>
      simp only [implRun, specRun, wellNested] at hw ⊢
      rw [h.use x, ih s scopes next d h hd hw]
    | declare x =>
      simp only [implRun, specRun, wellNested] at hw ⊢
      cases scopes with
      | nil => simp at hd
      | cons sc rest => exact ih _ _ _ d (h.declare x) (by simpa using hd) hw
    | remove x =>
      simp only [implRun, specRun, wellNested] at hw ⊢
      cases scopes with
      | nil => simp at hd
      | cons sc rest => exact ih _ _ _ d (h.remove x) (by simpa using hd) hw
    | enter bs =>
      simp only [implRun, specRun, wellNested] at hw ⊢
      exact ih _ _ _ (d + 1) (h.enter bs) (by simp [hd]) hw
    | leave =>
      simp only [implRun, specRun, wellNested, Bool.and_eq_true, decide_eq_true_eq] at hw ⊢
      cases scopes with
      | nil => simp at hd
      | cons sc rest =>
        have hne : rest ≠ [] := by intro h0; subst h0; simp at hd; omega
        cases d with
        | zero => omega
        | succ d' => exact ih _ _ _ d' (h.leave hne) (by simpa using hd) hw.2


theorem modify_concat_length {α} (l : List α) (a : α) (f : α → α) : (l ++ [a]).modify l.length f = l ++ [f a] := by
  induction l with
  | nil => simp [List.modify]
  | cons b t ih => simp [ih]

end UtapModel.Builder
