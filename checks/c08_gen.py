"""Seeded generators of UPPAAL models (abstract model -> XML and XTA text) and of faults, shared by C08, C16 and C07.

The abstract model is a dict:
  globals: declaration text items (list of str, each one complete declaration)
  templates: [{name, params:[str], decls:[str], locs:[{id,name,inv,exprate,urgent,committed}], bps:[id], init:id,
               edges:[{src,dst,select:[(name,type)],guard,sync,assign,prob,controllable}]}]
  system: [str] (instantiations / declarations), processes: [name]
Everything is type-directed enough to be accepted by the library (checked by the callers, who count accepted/rejected).
"""
import random
from xml.sax.saxutils import escape

RANGES = ["int[0,3]", "int[0,1]", "int[1,4]", "id_t"]


class Env:
    def __init__(self):
        self.ints, self.bools, self.clocks, self.chans, self.consts, self.arrays, self.funs = [], [], [], [], [], [], []

    def copy(self):
        e = Env()
        for k in vars(self):
            setattr(e, k, list(getattr(self, k)))
        return e


def int_expr(r, env, depth=0):
    c = r.random()
    atoms = env.ints + env.consts
    if depth > 2 or c < 0.3 or not atoms:
        if atoms and r.random() < 0.6:
            return r.choice(atoms)
        return str(r.randint(0, 5))
    if c < 0.7:
        return "%s %s %s" % (int_expr(r, env, depth + 1), r.choice(["+", "-", "*"]), int_expr(r, env, depth + 1))
    if c < 0.8 and env.arrays:
        return "%s[%s %% 2]" % (r.choice(env.arrays), int_expr(r, env, depth + 1))
    if c < 0.9 and env.funs:
        return "%s(%s)" % (r.choice(env.funs), int_expr(r, env, depth + 1))
    return "(%s ? %s : %s)" % (bool_expr(r, env, depth + 1), int_expr(r, env, depth + 1), int_expr(r, env, depth + 1))


def bool_expr(r, env, depth=0):
    c = r.random()
    if depth > 2 or c < 0.3:
        if env.bools and r.random() < 0.4:
            return r.choice(env.bools)
        return "%s %s %s" % (int_expr(r, env, depth + 1), r.choice(["<", "<=", "==", "!=", ">=", ">"]), int_expr(r, env, depth + 1))
    if c < 0.6:
        return "%s %s %s" % (bool_expr(r, env, depth + 1), r.choice(["&&", "||"]), bool_expr(r, env, depth + 1))
    if c < 0.7:
        return "!(%s)" % bool_expr(r, env, depth + 1)
    if c < 0.9:
        v = "q%d" % r.randint(0, 9)
        e2 = env.copy()
        e2.ints.append(v)
        return "%s (%s : %s) %s" % (r.choice(["forall", "exists"]), v, r.choice(RANGES[:3]), bool_expr(r, e2, depth + 1))
    return "true"


def guard_expr(r, env):
    parts = []
    if env.clocks and r.random() < 0.5:
        parts.append("%s %s %s" % (r.choice(env.clocks), r.choice(["<", "<=", ">=", ">", "=="]), int_expr(r, env, 2)))
    if r.random() < 0.7 or not parts:
        parts.append(bool_expr(r, env, 1))
    return " && ".join(parts)


def assign_expr(r, env):
    parts = []
    for _ in range(r.randint(1, 2)):
        c = r.random()
        if c < 0.5 and env.ints:
            parts.append("%s = %s" % (r.choice(env.ints), int_expr(r, env, 1)))
        elif c < 0.7 and env.clocks:
            parts.append("%s = 0" % r.choice(env.clocks))
        elif c < 0.85 and env.bools:
            parts.append("%s = %s" % (r.choice(env.bools), bool_expr(r, env, 2)))
        elif env.arrays:
            parts.append("%s[0] = %s" % (r.choice(env.arrays), int_expr(r, env, 2)))
    return ", ".join(parts) if parts else "1"


def gen_function(r, env, name):
    e = env.copy()
    p = "a%d" % r.randint(0, 3)
    e.ints.append(p)
    body = []
    v = "b%d" % r.randint(0, 3)
    body.append("int %s = %s;" % (v, int_expr(r, e, 1)))
    e.ints.append(v)
    if r.random() < 0.6:
        e2 = e.copy()
        w = "c%d" % r.randint(0, 3)
        e2.ints.append(w)
        body.append("{ int %s = %s; %s = %s; }" % (w, int_expr(r, e, 1), v, int_expr(r, e2, 1)))
    if r.random() < 0.6:
        k = "k%d" % r.randint(0, 3)
        e3 = e.copy()
        e3.ints.append(k)
        body.append("for (%s : %s) %s += %s;" % (k, r.choice(RANGES), v, int_expr(r, e3, 2)))
    if r.random() < 0.4:
        body.append("if (%s) %s = %s; else %s++;" % (bool_expr(r, e, 1), v, int_expr(r, e, 2), v))
    if r.random() < 0.3:
        body.append("while (%s > 3) %s--;" % (v, v))
    body.append("return %s;" % int_expr(r, e, 1))
    return "int %s(int %s) { %s }" % (name, p, " ".join(body))


def gen_decls(r, env, prefix, n, allow_fun=True):
    """n declarations (complete statements); extends env"""
    out = []
    for i in range(n):
        c = r.random()
        nm = "%s%d" % (prefix, i)
        if c < 0.25:
            out.append("int %s = %s;" % (nm, str(r.randint(0, 3))) if r.random() < 0.5 else "int[0,7] %s;" % nm)
            env.ints.append(nm)
        elif c < 0.4:
            out.append("bool %s;" % nm)
            env.bools.append(nm)
        elif c < 0.55:
            out.append("clock %s;" % nm)
            env.clocks.append(nm)
        elif c < 0.65:
            out.append("%schan %s;" % (r.choice(["", "broadcast ", "urgent "]), nm))
            env.chans.append(nm)
        elif c < 0.75:
            out.append("const int %s = %d;" % (nm, r.randint(1, 4)))
            env.consts.append(nm)
        elif c < 0.85:
            out.append("int %s[2] = {%d, %d};" % (nm, r.randint(0, 3), r.randint(0, 3)))
            env.arrays.append(nm)
        elif c < 0.9:
            out.append("typedef struct { int f%d; bool g%d; } %s_t; %s_t %s_v;" % (i, i, nm, nm, nm))
        elif allow_fun:
            out.append(gen_function(r, env, nm))
            env.funs.append(nm)
        else:
            out.append("int %s;" % nm)
            env.ints.append(nm)
    return out


def gen_model(r, size=None):
    size = size or r.choice([1, 1, 2, 2, 3])
    genv = Env()
    m = {"globals": ["typedef int[0,3] id_t;"], "templates": [], "system": [], "processes": []}
    m["globals"] += gen_decls(r, genv, "g", r.randint(1, 3 + size))
    for ti in range(r.randint(1, size)):
        tn = "T%d" % ti
        env = genv.copy()
        params = []
        for pi in range(r.choice([0, 0, 1, 1, 2])):
            pn = "p%d_%d" % (ti, pi)
            c = r.random()
            if c < 0.5:
                params.append(("const %s %s" % (r.choice(RANGES), pn), "int"))
                env.consts.append(pn)
            elif c < 0.8:
                params.append(("int &%s" % pn, "intref"))
                env.ints.append(pn)
            else:
                params.append(("bool &%s" % pn, "boolref"))
                env.bools.append(pn)
        decls = gen_decls(r, env, "l%d_" % ti, r.randint(0, 2 + size))
        nl = r.randint(1, 2 + size)
        locs = []
        for li in range(nl):
            loc = {"id": "id%d_%d" % (ti, li), "name": "L%d" % li if r.random() < 0.85 else "", "inv": None, "exprate": None,
                   "urgent": False, "committed": False}
            if env.clocks and r.random() < 0.4:
                loc["inv"] = "%s <= %s" % (r.choice(env.clocks), int_expr(r, env, 2))
                if r.random() < 0.3:
                    loc["exprate"] = str(r.randint(1, 5))        # a location may carry both labels (the invariant first)
            elif r.random() < 0.15:
                loc["exprate"] = str(r.randint(1, 5))
            c = r.random()
            if c < 0.15 and not loc["inv"]:
                loc["urgent"] = True
            elif c < 0.3 and not loc["inv"]:
                loc["committed"] = True
            locs.append(loc)
        bps = ["bp%d_%d" % (ti, bi) for bi in range(r.choice([0, 0, 1, 2]))]
        edges = []
        for ei in range(r.randint(0, 2 + 2 * size)):
            src = r.choice(locs)["id"]
            dst = r.choice(locs)["id"]
            e = {"src": src, "dst": dst, "select": [], "guard": None, "sync": None, "assign": None, "prob": None, "controllable": r.random() < 0.85}
            eenv = env.copy()
            for si in range(r.choice([0, 0, 1, 2])):
                sn = r.choice(["i", "j", "s%d" % si])
                if sn in [x[0] for x in e["select"]]:
                    continue
                e["select"].append((sn, r.choice(RANGES)))
                eenv.consts.append(sn)
            if r.random() < 0.6:
                e["guard"] = guard_expr(r, eenv)
            if env.chans and r.random() < 0.4:
                e["sync"] = r.choice(env.chans) + r.choice(["!", "?"])
            if r.random() < 0.6:
                e["assign"] = assign_expr(r, eenv)
            edges.append(e)
        for b in bps:  # a branchpoint: one edge in, two out with weights
            edges.append({"src": r.choice(locs)["id"], "dst": b, "select": [], "guard": None, "sync": None, "assign": None, "prob": None, "controllable": True})
            for _ in range(2):
                edges.append({"src": b, "dst": r.choice(locs)["id"], "select": [], "guard": None, "sync": None,
                              "assign": assign_expr(r, env) if r.random() < 0.5 else None, "prob": str(r.randint(1, 9)), "controllable": True})
        m["templates"].append({"name": tn, "params": params, "decls": decls, "locs": locs, "bps": bps, "init": r.choice(locs)["id"], "edges": edges,
                               "env": env})
    # system: instantiations (partial and full) and the process list
    sysenv = genv.copy()
    if r.random() < 0.5:
        m["system"].append("int sysv = 1;")
        sysenv.ints.append("sysv")
    for ti, t in enumerate(m["templates"]):
        def arg(kind, freeconst=None):
            if kind == "int":
                return freeconst if freeconst and r.random() < 0.5 else str(r.randint(0, 1))
            if kind == "intref":
                return r.choice(sysenv.ints) if sysenv.ints else None
            return r.choice(sysenv.bools) if sysenv.bools else None
        args = [arg(k) for _, k in t["params"]]
        if any(a is None for a in args):
            # cannot bind a reference parameter: leave the template uninstantiated unless all params are value params
            if all(k == "int" for _, k in t["params"]):
                m["processes"].append(t["name"])
            continue
        c = r.random()
        if c < 0.35 or not t["params"]:
            pn = "P%d" % ti
            m["system"].append("%s = %s(%s);" % (pn, t["name"], ", ".join(args)))
            m["processes"].append(pn)
            if r.random() < 0.3:
                pn2 = "P%db" % ti
                m["system"].append("%s = %s(%s);" % (pn2, t["name"], ", ".join(arg(k) for _, k in t["params"])))
                m["processes"].append(pn2)
        elif c < 0.7:
            # partial instance with one free parameter, then either a full instance of it or the partial one as process set
            qn = "Q%d" % ti
            args2 = [arg(k, "fp") for _, k in t["params"]]
            m["system"].append("%s(const int[0,1] fp) = %s(%s);" % (qn, t["name"], ", ".join(args2)))
            if r.random() < 0.5:
                rn = "R%d" % ti
                m["system"].append("%s = %s(%d);" % (rn, qn, r.randint(0, 1)))
                m["processes"].append(rn)
            else:
                m["processes"].append(qn)
        else:
            if all(k == "int" for _, k in t["params"]):
                m["processes"].append(t["name"])
            else:
                pn = "P%d" % ti
                m["system"].append("%s = %s(%s);" % (pn, t["name"], ", ".join(args)))
                m["processes"].append(pn)
    if not m["processes"]:
        t = {"name": "Tz", "params": [], "decls": [], "locs": [{"id": "idz", "name": "Z", "inv": None, "exprate": None, "urgent": False, "committed": False}],
             "bps": [], "init": "idz", "edges": [], "env": genv.copy()}
        m["templates"].append(t)
        m["processes"].append("Tz")
    return m


# parameter names of the chain templates and of the instances made from them: a small pool, so that an instance's own parameter often has
# the NAME of a parameter of the template (or of an earlier instance) it binds -- different symbols in different scopes
CHAIN_NAMES = ["n", "k", "x", "y"]
CHAIN_FRESH = ["m", "fp"]
CHAIN_TYPES = ["const int[1,3]"] * 5 + ["const int"] * 2 + ["int[1,3]"]     # mostly what a clean model needs: constant and bounded


def add_instance_chain(r, m, fault=None):
    """Appends to model m one template with 2-4 value parameters and a chain of 1-3 instantiations of it, each level binding some of
    the still free parameters to constants and passing the others on through parameters of its own (`I(const int[1,3] x) = C(x, 2);
    J = I(1);`).  Exercises what an instance records about its parameters: unbound ones first, one mapping entry per bound one, level
    after level.  Some template parameters are `restricted` (used, directly or through a constant, as an array size or a scalar set size),
    which makes the builder look the arguments up again.  fault: None | 'fewargs' | 'manyargs' | 'dupparam' | 'undeclared' at one level.
    Returns the names of the instances in chain order."""
    ti = len(m["templates"])
    tn = "C%d" % ti
    names = r.sample(CHAIN_NAMES, r.randint(2, len(CHAIN_NAMES)))
    free = [(pn, r.choice(CHAIN_TYPES)) for pn in names]
    env = Env()
    env.consts += names
    decls = []
    for pn, ty in free:
        c = r.random()
        if not ty.startswith("const"):
            c = 1.0                # a size or a bound must be computable at compile time
        if c < 0.3:
            decls.append("int a_%s[%s];" % (pn, pn))
        elif c < 0.45:
            decls.append("const int c_%s = %s + 1; bool b_%s[c_%s];" % (pn, pn, pn, pn))
        elif c < 0.55:
            decls.append("typedef scalar[%s] s_%s_t;" % (pn, pn))
        elif c < 0.7:
            decls.append("int[0,%s] v_%s;" % (pn, pn))
            env.ints.append("v_%s" % pn)
    locs = [{"id": "id%d_%d" % (ti, li), "name": "L%d" % li, "inv": None, "exprate": None, "urgent": False, "committed": False} for li in range(2)]
    edges = [{"src": locs[0]["id"], "dst": locs[1]["id"], "select": [], "guard": "%s >= %s" % (r.choice(names), int_expr(r, env, 2)), "sync": None,
              "assign": None, "prob": None, "controllable": True}]
    m["templates"].append({"name": tn, "params": [("%s %s" % (ty, pn), "int") for pn, ty in free], "decls": decls, "locs": locs, "bps": [],
                           "init": locs[0]["id"], "edges": edges, "env": env})
    levels = r.randint(1, 3)
    bad_level = r.randrange(levels) if fault else -1
    cur, made = tn, []
    for lvl in range(levels):
        nm = "I%d_%d" % (ti, lvl)
        own, args = [], []
        for pn, ty in free:
            c = r.random()
            if (lvl < levels - 1 and c < 0.5) or c < 0.15:
                # passed on through a parameter of the new instance: under the same name, under the name of another parameter, or a new one
                q = r.choice([pn, pn, r.choice(CHAIN_NAMES), r.choice(CHAIN_NAMES), r.choice(CHAIN_FRESH)])
                if q not in [o[0] for o in own]:
                    own.append((q, ty if ty != "const int" or r.random() < 0.5 else "const int[1,3]"))
                args.append(q if r.random() < 0.85 else "%s + 0" % q)
            else:
                args.append(str(r.randint(1, 3)))
        if lvl == bad_level:
            if fault == "fewargs" and args:
                args.pop(r.randrange(len(args)))
            elif fault == "manyargs":
                args.insert(r.randrange(len(args) + 1), "1")
            elif fault == "dupparam" and own:
                own.append(own[0])
            elif fault == "undeclared":
                args[r.randrange(len(args))] = "undeclared_name"
        head = "%s(%s)" % (nm, ", ".join("%s %s" % (ty, q) for q, ty in own)) if own else nm
        m["system"].append("%s = %s(%s);" % (head, cur, ", ".join(args)))
        made.append(nm)
        cur, free = nm, own
        if not free:
            break
    # the end of the chain is a process (a process set when parameters are left); now and then an inner level as well
    m["processes"].append(cur)
    for nm in made[:-1]:
        if r.random() < 0.3:
            m["processes"].append(nm)
    return made


def loc_name(t, lid):
    for l in t["locs"]:
        if l["id"] == lid:
            return l["name"] if l["name"] else "_" + lid
    return "_" + lid


def to_xml(m, drop=None):
    """drop: optional set of structural faults, e.g. {("init", ti)}, {("source", ti, ei)}, {("locid", ti, li)}"""
    drop = drop or set()
    o = ['<?xml version="1.0" encoding="utf-8"?>', "<nta>", "<declaration>%s</declaration>" % escape("\n".join(m["globals"]))]
    for ti, t in enumerate(m["templates"]):
        o.append("<template>")
        o.append("<name>%s</name>" % escape(t["name"]))
        if t["params"]:
            o.append("<parameter>%s</parameter>" % escape(", ".join(p for p, _ in t["params"])))
        if t["decls"]:
            o.append("<declaration>%s</declaration>" % escape("\n".join(t["decls"])))
        for li, l in enumerate(t["locs"]):
            idattr = "" if ("locid", ti, li) in drop else ' id="%s"' % l["id"]
            o.append("<location%s>" % idattr)
            if l["name"]:
                o.append("<name>%s</name>" % escape(l["name"]))
            if l["inv"] is not None:
                o.append('<label kind="invariant">%s</label>' % escape(l["inv"]))
            if l["exprate"] is not None:
                o.append('<label kind="exponentialrate">%s</label>' % escape(l["exprate"]))
            if l["urgent"]:
                o.append("<urgent/>")
            if l["committed"]:
                o.append("<committed/>")
            o.append("</location>")
        for b in t["bps"]:
            o.append('<branchpoint id="%s"/>' % b)
        if ("init", ti) not in drop:
            o.append('<init ref="%s"/>' % (t["init"] if ("initref", ti) not in drop else "nosuchid"))
        for ei, e in enumerate(t["edges"]):
            o.append("<transition%s>" % ("" if e["controllable"] else ' controllable="false"'))
            if ("source", ti, ei) not in drop:
                o.append('<source ref="%s"/>' % (e["src"] if ("sourceref", ti, ei) not in drop else "nosuchid"))
            if ("target", ti, ei) not in drop:
                o.append('<target ref="%s"/>' % e["dst"])
            if e["select"]:
                o.append('<label kind="select">%s</label>' % escape(", ".join("%s : %s" % s for s in e["select"])))
            for k, f in (("guard", "guard"), ("synchronisation", "sync"), ("assignment", "assign"), ("probability", "prob")):
                if e[f] is not None:
                    kindattr = "" if ("labelkind", ti, ei, f) in drop else ' kind="%s"' % k
                    o.append("<label%s>%s</label>" % (kindattr, escape(e[f])))
            o.append("</transition>")
        o.append("</template>")
    if ("system",) not in drop:
        o.append("<system>%s</system>" % escape("\n".join(m["system"]) + "\nsystem %s;" % ", ".join(m["processes"])))
    o.append("</nta>")
    return "\n".join(o) + "\n"


def to_xta(m):
    o = list(m["globals"])
    for t in m["templates"]:
        o.append("process %s(%s) {" % (t["name"], ", ".join(p for p, _ in t["params"])))
        o += t["decls"]
        states = []
        for l in t["locs"]:
            n = loc_name(t, l["id"])
            if l["inv"] is not None and l["exprate"] is not None:
                states.append("%s {%s ; %s}" % (n, l["inv"], l["exprate"]))
            elif l["inv"] is not None:
                states.append("%s {%s}" % (n, l["inv"]))
            elif l["exprate"] is not None:
                states.append("%s {; %s}" % (n, l["exprate"]))
            else:
                states.append(n)
        o.append("state %s;" % ", ".join(states))
        if t["bps"]:
            o.append("branchpoint %s;" % ", ".join("_" + b for b in t["bps"]))
        c = [loc_name(t, l["id"]) for l in t["locs"] if l["committed"]]
        u = [loc_name(t, l["id"]) for l in t["locs"] if l["urgent"]]
        if c:
            o.append("commit %s;" % ", ".join(c))
        if u:
            o.append("urgent %s;" % ", ".join(u))
        o.append("init %s;" % loc_name(t, t["init"]))
        tr = []
        for e in t["edges"]:
            def nm(x):
                return "_" + x if x in t["bps"] else loc_name(t, x)
            body = ""
            if e["select"]:
                body += "select %s; " % ", ".join("%s : %s" % s for s in e["select"])
            if e["guard"] is not None:
                body += "guard %s; " % e["guard"]
            if e["sync"] is not None:
                body += "sync %s; " % e["sync"]
            if e["assign"] is not None:
                body += "assign %s; " % e["assign"]
            if e["prob"] is not None:
                body += "probability %s; " % e["prob"]
            tr.append("%s %s %s { %s}" % (nm(e["src"]), "->" if e["controllable"] else "-u->", nm(e["dst"]), body))
        if tr:
            o.append("trans " + ",\n  ".join(tr) + ";")
        o.append("}")
    o += m["system"]
    o.append("system %s;" % ", ".join(m["processes"]))
    return "\n".join(o) + "\n"


# ---------------------------------------------------------------------------------------------------------------
# faults
# ---------------------------------------------------------------------------------------------------------------
import re

TOKEN = re.compile(r"\s+|[A-Za-z_][A-Za-z_0-9]*|[0-9]+(?:\.[0-9]+)?|<=|>=|==|!=|&&|\|\||\+\+|--|->|:=|\+=|-=|.", re.S)


def tokens(text):
    return [t for t in TOKEN.findall(text)]


JUNK = ["(", ")", "[", "]", "{", "}", ";", ",", "@", "forall (zz : int[0,1]) (", "exists (zz : int[0,1])", "nosuchname", "1 +", "/*", "\"", "=", ":", "?",
        "int", "struct", "sum (zz : id_t) (", "."]


def mutate_text(r, text):
    """one token-level fault; returns (kind, new text)"""
    toks = tokens(text)
    idx = [i for i, t in enumerate(toks) if not t.isspace()]
    if not idx:
        return "junk", r.choice(JUNK)
    k = r.choice(["delete", "dup", "swap", "trunc", "junk", "undeclared", "replace"])
    i = r.choice(idx)
    if k == "delete":
        del toks[i]
    elif k == "dup":
        toks.insert(i, toks[i])
    elif k == "swap" and len(idx) > 1:
        j = r.choice(idx)
        toks[i], toks[j] = toks[j], toks[i]
    elif k == "trunc":
        toks = toks[:i]
    elif k == "junk":
        toks.insert(i, " " + r.choice(JUNK) + " ")
    elif k == "undeclared":
        ids = [x for x in idx if re.match(r"[A-Za-z_]", toks[x])]
        if ids:
            toks[r.choice(ids)] = "undeclared_name"
        else:
            toks.insert(i, " undeclared_name ")
    else:
        toks[i] = r.choice(JUNK)
    return k, "".join(toks)
