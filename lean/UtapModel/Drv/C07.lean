/- Driver for C07: one scope script per line (events `E:a,b` enter with binders, `L` leave, `D:x` declare, `U:x` use);
   prints whether the script is well nested and, per use, the declaration ordinal the declarative semantics (`specRun`)
   and the frame-store machine (`implRun`) bind it to. -/
import UtapModel.Model.ScopeScript
open UtapModel.Builder

def parseEv (tok : String) : Option Ev :=
  if tok == "L" then some .leave
  else if tok.startsWith "E:" then
    let rest := (tok.drop 2).toString
    some (.enter (if rest == "" then [] else rest.splitOn ","))
  else if tok.startsWith "D:" then some (.declare (tok.drop 2).toString)
  else if tok.startsWith "U:" then some (.use (tok.drop 2).toString)
  else none

def showB (l : List (Option Nat)) : String :=
  ",".intercalate (l.map (fun o => match o with | some n => toString n | none => "none"))

def stepLine (line : String) : String :=
  let toks := (line.trimAscii.toString.splitOn " ").filter (· ≠ "")
  match toks.mapM parseEv with
  | none => "bad-script"
  | some evs =>
    let wn := wellNested 0 evs
    s!"{if wn then "WN" else "NOTWN"} spec={showB (specRun [[]] 0 evs)} impl={showB (implRun SState.init evs)}"

partial def loop (h : IO.FS.Stream) (out : IO.FS.Stream) : IO Unit := do
  let line ← h.getLine
  if line.isEmpty then return ()
  out.putStrLn (stepLine line)
  loop h out

def main : IO Unit := do loop (← IO.getStdin) (← IO.getStdout)
