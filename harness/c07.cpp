// C07 harness (queries): parse a model with the public entry point, then parse query texts in the scope of the built
// document and report how every identifier and every process-qualified name P.x was bound.
//   c07 batch   stdin: "<id> <base64 xml> <base64 of newline-separated queries>"
//   stdout:  BEGIN id / RC n errors=k / Q <i> <binding tokens...> / END id
//   binding tokens:  ID:<name>:<type>   for an identifier,   DOT:<process>.<member label>#<index>:<type of P.x>   for P.x,
//                    DECL:<process>.<name>#<index>   the declaration the index of P.x designates in the frame of P's template (what
//                    every consumer of a process member reads: process.templ->frame[index]), `?` when it designates none
//   a query line `TC <query>` is also type checked as a property:  TC:ok  or  TC:<first diagnostic>
//   call sequences: a line starting with `#` changes the built document between two queries (one output line each, `Q <i> ...`):
//     #remove-process <name>   Document::remove_process on the process of that name        REMOVED:<name>@<n> | REMOVED:none
//     #remove-symbol <name>    frame_t::remove on the global frame's own symbol of the name    REMOVED:<name>@<n> | REMOVED:none
//     #resolve-all             frame_t::resolve in the global frame for every name it held  AT:<name>@<n> | AT:<name>@none ...
//   <n> is the position the symbol had in the global frame BEFORE the first change (line `G <name> <name> ...`, printed once,
//   ahead of the first `#` line); after the first change every identifier of a query is also reported as AT:<name>@<n>
//   (`@local` for a symbol that never was in the global frame).
#include "common.hpp"

#include <algorithm>
#include <set>
#include <typeinfo>

using namespace UTAP;
using namespace UTAP::Constants;

static std::string b64dec(const std::string& s)
{
    static int T[256];
    static bool init = false;
    if (!init) {
        for (int& x : T) x = -1;
        const char* a = "ABCDEFGHIJKLMNOPQRSTUVWXYZabcdefghijklmnopqrstuvwxyz0123456789+/";
        for (int i = 0; i < 64; ++i) T[(unsigned char)a[i]] = i;
        init = true;
    }
    std::string o;
    unsigned val = 0;
    int bits = -8;
    for (unsigned char c : s) {
        if (T[c] < 0) continue;
        val = ((val << 6) | (unsigned)T[c]) & 0xFFFFFFu;
        bits += 6;
        if (bits >= 0) { o += char((val >> bits) & 0xFF); bits -= 8; }
    }
    return o;
}

static std::string nosp(std::string s)
{
    for (char& c : s) if (c == ' ') c = '_';
    return s;
}

/// the global frame as it was before the first change of the document (empty: no change yet)
static std::vector<symbol_t> snapshot;

static std::string at(const symbol_t& s)
{
    auto it = std::find(snapshot.begin(), snapshot.end(), s);
    return it == snapshot.end() ? std::string("local") : std::to_string(it - snapshot.begin());
}

static void bindings(const expression_t& e, std::ostream& os)
{
    if (e.empty()) return;
    auto k = e.get_kind();
    if (k == DOT && e.get_size() == 1 && e[0].get_kind() == IDENTIFIER && e[0].get_type().is_process()) {
        type_t pt = e[0].get_type();
        int idx = e.get_index();
        std::string label = (idx >= 0 && (uint32_t)idx < pt.size()) ? pt.get_label(idx) : std::string("?");
        symbol_t ps = e[0].get_symbol();
        os << " DOT:" << ps.get_name() << "." << label << "#" << idx << ":" << nosp(vh::tsexp(e.get_type()));
        auto* inst = static_cast<const instance_t*>(ps.get_data());
        std::string decl = "?";
        if (inst != nullptr && inst->templ != nullptr && idx >= 0 && (uint32_t)idx < inst->templ->frame.get_size())
            decl = inst->templ->frame[idx].get_name();
        os << " DECL:" << ps.get_name() << "." << decl << "#" << idx;
        if (!snapshot.empty()) os << " AT:" << ps.get_name() << "@" << at(ps);
        return;
    }
    if (k == IDENTIFIER) {
        os << " ID:" << e.get_symbol().get_name() << ":" << nosp(vh::tsexp(e.get_symbol().get_type()));
        if (!snapshot.empty()) os << " AT:" << e.get_symbol().get_name() << "@" << at(e.get_symbol());
    }
    for (size_t i = 0; i < e.get_size(); ++i) bindings(e[i], os);
}

/// `#...` lines: a change of the document through its public interface, or a question to the global frame itself
static void directive(Document& doc, const std::string& line, std::ostream& os)
{
    std::istringstream is(line);
    std::string op, name;
    is >> op >> name;
    frame_t globals = doc.get_globals().frame;
    if (op == "#remove-process") {
        for (auto& p : doc.get_processes())
            if (p.uid.get_name() == name) {
                os << " REMOVED:" << name << "@" << at(p.uid);
                doc.remove_process(p);
                return;
            }
        os << " REMOVED:none";
    } else if (op == "#remove-symbol") {
        if (auto idx = globals.get_index_of(name)) {
            symbol_t s = globals[*idx];
            os << " REMOVED:" << name << "@" << at(s);
            globals.remove(s);
        } else
            os << " REMOVED:none";
    } else if (op == "#resolve-all") {
        std::set<std::string> seen;
        for (auto& s0 : snapshot) {
            if (s0.get_name().empty() || !seen.insert(s0.get_name()).second) continue;
            symbol_t s;
            os << " AT:" << s0.get_name() << "@" << (globals.resolve(s0.get_name(), s) ? at(s) : std::string("none"));
        }
    } else
        os << " BAD-DIRECTIVE";
}

int main(int, char**)
{
    std::ios::sync_with_stdio(false);
    std::string line;
    while (std::getline(std::cin, line)) {
        std::istringstream is(line);
        std::string id, b64, qb64;
        if (!(is >> id >> b64 >> qb64)) continue;
        std::string input = b64dec(b64), queries = b64dec(qb64);
        std::cout << "BEGIN " << id << std::endl;      // flushed: if the process dies, the case it died in is known
        snapshot.clear();
        auto doc = std::make_unique<Document>();
        std::string rc;
        try {
            rc = std::to_string(parse_XML_buffer(input.c_str(), doc.get(), true));
        } catch (const std::exception& e) {
            rc = std::string("EXC:") + typeid(e).name();
        }
        std::cout << "RC " << rc << " errors=" << doc->get_errors().size() << "\n";
        std::istringstream qs(queries);
        std::string q;
        int i = 0;
        while (std::getline(qs, q)) {
            if (q.empty()) continue;
            size_t nerr = doc->get_errors().size();
            std::ostringstream os;
            bool tc = q.rfind("TC ", 0) == 0;
            if (tc) q = q.substr(3);
            try {
                if (q[0] == '#') {
                    if (snapshot.empty()) {
                        for (auto& s : doc->get_globals().frame) snapshot.push_back(s);
                        std::cout << "G";
                        for (auto& s : snapshot) std::cout << " " << (s.get_name().empty() ? std::string("\"\"") : s.get_name());
                        std::cout << "\n";
                    }
                    directive(*doc, q, os);
                } else {
                    expression_t e = vh::parseQuery(*doc, q);
                    if (e.empty()) os << " EMPTY";
                    bindings(e, os);
                    if (tc && !e.empty()) {
                        size_t n0 = doc->get_errors().size();
                        TypeChecker checker{*doc};
                        checker.visitProperty(e);
                        os << " TC:" << (doc->get_errors().size() == n0 ? std::string("ok") : nosp(doc->get_errors()[n0].msg));
                    }
                }
            } catch (const std::exception& ex) {
                os << " EXC:" << typeid(ex).name();
            }
            std::cout << "Q " << i << os.str();
            for (size_t k = nerr; k < doc->get_errors().size(); ++k) std::cout << " ERR:" << nosp(doc->get_errors()[k].msg);
            std::cout << "\n";
            if (!snapshot.empty()) std::cout.flush();      // a changed document: keep what was answered so far
            ++i;
        }
        std::cout << "END " << id << "\n";
        std::cout.flush();
    }
    return 0;
}
