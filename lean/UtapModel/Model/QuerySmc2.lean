/-
M-QUERY-SMC2 — the remaining statistical query forms (C03), on top of Model/QuerySmc.lean:

    Pr[B](<> e) >= p        Pr[B]([] e) >= p                 (hypothesis testing; `p` a floating-point literal, kept as its text)
    Pr[B](<> a) >= Pr[B']([] b)                              (comparison of two probabilities; no run counts)
    simulate[B]{ e1, .., en } : p        simulate[B]{ .. } : n : p      (simulation filtered by a predicate, n accepting runs)

* `XQuery`: the trees `expr_proba_qualitative` (for `>=`), `expr_proba_compare` and `expr_simulate(.., true, n)` build.
* `printX`: `expression_t::print` for PROBA_MIN_BOX / PROBA_MIN_DIAMOND / PROBA_CMP / SIMULATEREACH; like the cases of QuerySmc they print
  conditionally and are matched as whole texts by translate/query_tables.py, which regenerates the terminals of their literals.
* `parseX`: the productions `T_PROBA SMCBounds '(' PathType Expression ')' CmpGLE T_FLOATING`, `.. T_GEQ T_PROBA SMCBounds '(' PathType
  Expression ')'`, `T_SIMULATE SMCBounds '{' NonEmptyExpressionList '}' ':' Expression`, `.. ':' T_NAT ':' Expression`.
Outside: `<= p` (the builder negates the predicate and computes 1 - p in floating point, which a text-level model cannot express; the
correspondence runs those forms only against the library itself), the value of `p` (its 6-digit printing is the known double finding).
Core Lean only.
-/
import UtapModel.Model.QuerySmc

namespace UtapModel.QuerySmc
open UtapModel.Pratt UtapModel.ExprTable UtapModel.ExprGrammar UtapModel.QueryTables UtapModel.Query

inductive XQuery where
  | qual (box : Bool) (b : Bnd) (pred : Expr) (p : String)            -- PROBA_MIN_BOX / PROBA_MIN_DIAMOND (runs, type, bound, pred, p)
  | cmp (b1 : Bnd) (box1 : Bool) (p1 : Expr) (b2 : Bnd) (box2 : Bool) (p2 : Expr)   -- PROBA_CMP (type, bound, path, pred) twice
  | reach (b : Bnd) (l : List Expr) (n : Nat) (pred : Expr)           -- SIMULATEREACH (runs, type, bound, l.., pred, n)
deriving DecidableEq, Repr, Inhabited

def pathToks (box : Bool) : List Tok := if box then lit "cmpBox" else lit "cmpDiamond"

def printX (P : Expr → List Tok) : XQuery → List Tok
  | .qual box b pred p =>
    lit "pr" ++ bndToks P b ++ (if box then lit "box" else lit "diamond") ++ P pred ++ lit "geq" ++ [.atom (.dbl p)]
  | .cmp b1 box1 p1 b2 box2 p2 =>
    -- the run counts are not printed (the builder refuses them)
    lit "pr" ++ boundToks P b1 ++ lit "cmpOpen" ++ pathToks box1 ++ P p1 ++ lit "geq" ++
      (lit "pr" ++ boundToks P b2 ++ lit "cmpOpen" ++ pathToks box2 ++ P p2 ++ lit "close")
  | .reach b l n pred =>
    lit "sim" ++ boundToks P b ++ lit "runs" ++ .atom (.nat (b.runs.getD 1)) ::
      (lit "simOpen" ++ printList P l ++ lit "reachOpen" ++ .atom (.nat n) :: (lit "reachSep" ++ P pred))

def xprint (q : XQuery) : List Tok := printX (PrintModel.lprint genData mt) q

def modelProdsSmc2 : List (String × List String × List String) := [
  ("PropertyExpr", ["T_PROBA", "SMCBounds", "'('", "PathType", "Expression", "')'", "CmpGLE", "T_FLOATING", "Subjection"],
    ["expr_proba_qualitative($4,$7,$8)", "property()"]),
  ("PropertyExpr", ["T_PROBA", "SMCBounds", "'('", "PathType", "Expression", "')'", "T_GEQ", "T_PROBA", "SMCBounds", "'('", "PathType", "Expression", "')'", "Subjection"],
    ["expr_proba_compare($4,$11)", "property()"]),
  ("PropertyExpr", ["T_SIMULATE", "SMCBounds", "'{'", "NonEmptyExpressionList", "'}'", "':'", "Expression", "Subjection"],
    ["expr_simulate($4,true)", "property()"]),
  ("PropertyExpr", ["T_SIMULATE", "SMCBounds", "'{'", "NonEmptyExpressionList", "'}'", "':'", "T_NAT", "':'", "Expression", "Subjection"],
    ["expr_simulate($4,true,$7)", "property()"]),
  ("CmpGLE", ["T_GEQ"], []),
  ("CmpGLE", ["T_LEQ"], [])
]

def pathTok? (t : Nat) : Option Bool :=
  if isTok t "T_BOX" then some true else if isTok t "T_DIAMOND" then some false else none

/-- `B ] ( PathType e )` after `Pr[`: the bound, the path type, the predicate, and what follows the `)` -/
def prHead (r : List Tok) : Option (Bnd × Bool × Expr × List Tok) :=
  match parseBnd r with
  | some (b, .lp :: .sym t :: r1) =>
    match pathTok? t with
    | some box =>
      match pE r1 with
      | some (e, .rp :: r2) => some (b, box, e, r2)
      | _ => none
    | none => none
  | _ => none

def parseX (ts : List Tok) : Option XQuery :=
  match ts with
  | .sym t :: .lb :: r =>
    if isTok t "T_PROBA" then
      match prHead r with
      | some (b, box, e, .sym g :: r2) =>
        if isTok g "T_GEQ" then
          match r2 with
          | [.atom (.dbl p)] => some (.qual box b e p)
          | .sym t2 :: .lb :: r3 =>
            if isTok t2 "T_PROBA" then
              match prHead r3 with
              | some (b', box', e', []) =>
                -- `expr_proba_compare` throws when either side carries a run count
                if b.runs.isNone && b'.runs.isNone then some (.cmp b box e b' box' e') else none
              | _ => none
            else none
          | _ => none
        else none
      | _ => none
    else if isTok t "T_SIMULATE" then
      match parseBnd r with
      | some (b, .sym ob :: r1) =>
        if isTok ob "'{'" then
          match parseList (r1.length + 1) r1 with
          | some (l, .sym cb :: .colon :: r2) =>
            if isTok cb "'}'" then
              let b' := { b with runs := some (b.runs.getD 1) }
              match r2 with
              | .atom (.nat n) :: .colon :: r3 =>
                (match pE r3 with | some (e, []) => some (.reach b' l n e) | _ => none)
              | _ =>
                -- `: e` — the number of accepting runs defaults to 0
                (match pE r2 with | some (e, []) => some (.reach b' l 0 e) | _ => none)
            else none
          | _ => none
        else none
      | _ => none
    else none
  | _ => none

def XQuery.wf : XQuery → Bool
  | .qual _ b pred _ => b.wf && goodE pred
  | .cmp b1 _ p1 b2 _ p2 => b1.wf && b1.runs.isNone && goodE p1 && b2.wf && b2.runs.isNone && goodE p2
  | .reach b l _ pred => b.wf && b.runs.isSome && l.all goodE && !l.isEmpty && goodE pred

/-- the kind tree; the path types of PROBA_CMP are the constants BOX / DIAMOND (printed by name by the harness) -/
def pathK (box : Bool) : KTree := .node "CONSTANT" ["path", if box then "BOX" else "DIAMOND"] []

def xToK : XQuery → KTree
  | .qual box b pred p => .node (if box then "PROBA_MIN_BOX" else "PROBA_MIN_DIAMOND") []
      [runsK b.runs, kindK b.kind, toK genData b.bound, toK genData pred, .node "CONSTANT" ["double", p] []]
  | .cmp b1 box1 p1 b2 box2 p2 => .node "PROBA_CMP" []
      [kindK b1.kind, toK genData b1.bound, pathK box1, toK genData p1, kindK b2.kind, toK genData b2.bound, pathK box2, toK genData p2]
  | .reach b l n pred => .node "SIMULATEREACH" []
      ([runsK (some (b.runs.getD 1)), kindK b.kind, toK genData b.bound] ++ l.map (toK genData) ++ [toK genData pred, natK n])

end UtapModel.QuerySmc
