// C12 harness: the real parser + type checker behind a line protocol.
//
//   stdin :  XTA <id> <nbytes>\n<bytes>\n     |  XML <id> <nbytes>\n<bytes>\n
//   stdout:  BEGIN <id>
//            V accepted|rejected
//            E "<message>"                      one per diagnostic, in order
//            S <scope> <name> mut= const= isC= isRef= sub=<ty>|- strip=<ty> ty=<ty>     declared type of every variable / parameter / binder reachable in the document
//            X <ctx> <KIND> <exinfo>            every write site (=, op=, ++, --) found in the document: info about its target
//            A <ctx> fun|inst <callee> <i> ref=<0/1> const=<0/1> compat=<0/1> ctc=<0/1> param=<ty> <exinfo>   every call / instantiation argument
//            END <id>
//   exinfo = mod=<b> lv=<b> uniq=<b> tmut=<b> tconst=<b> ty=<ty> ex=<ex>
//   <ty>   = (KIND {[label] <ty>})            range bounds appear as (UNKNOWN) children, exactly as in type_t
//   <ex>   = (id name <ty>) | (dot i <ex>) | (idx ctc <ex>) | (n1 KIND <ex>) | (n2 KIND <ex> <ex>)
//          | (iif eq <ty> <ex> <ex> <ex>) | (op KIND <ty>)
//
// mod / lv / uniq are TypeChecker::isModifiableLValue / isLValue / isUniqueReference evaluated by the real code (the three
// members are private: the harness includes the library headers with `private` opened; nothing in /repo is changed).
#include <algorithm>
#include <cassert>
#include <cstdint>
#include <cstring>
#include <deque>
#include <fstream>
#include <functional>
#include <iostream>
#include <list>
#include <map>
#include <memory>
#include <optional>
#include <set>
#include <sstream>
#include <stack>
#include <stdexcept>
#include <string>
#include <variant>
#include <vector>

#define private public
#define protected public
#include "common.hpp"
#include "utap/statement.h"
#undef private
#undef protected

using namespace UTAP;
using namespace UTAP::Constants;
using vh::kindName;

static std::string atom(const std::string& s)
{
    if (s.empty()) return "";
    std::string o;
    for (char c : s) o += (c == ' ' || c == '(' || c == ')' || c == '\n' || c == '\t') ? '_' : c;
    return o;
}

static std::string ty(const type_t& t, int depth = 0)
{
    if (t.data == nullptr) return "(NULLTYPE)";
    if (depth > 60) return "(DEEP)";
    auto k = t.get_kind();
    std::string o = std::string("(") + kindName(k);
    if (k == PROCESS || k == INSTANCE || k == LSC_INSTANCE || k == PROCESS_SET || k == FUNCTION || k == FUNCTION_EXTERNAL) {
        // children are the symbols of a template / the parameters: not needed (both predicates decide on the kind alone)
        return o + ")";
    }
    for (uint32_t i = 0; i < t.size(); ++i) {
        o += " ";
        std::string l = atom(t.get_label(i));
        if (!l.empty()) o += l + " ";
        o += ty(t.get(i), depth + 1);
    }
    return o + ")";
}

static bool lvKind(kind_t k)
{
    switch (k) {
    case PRE_INCREMENT:
    case PRE_DECREMENT:
    case POST_INCREMENT:
    case POST_DECREMENT: return true;
    default: return false;
    }
}
static bool assKind(kind_t k)
{
    switch (k) {
    case ASSIGN:
    case ASS_PLUS:
    case ASS_MINUS:
    case ASS_DIV:
    case ASS_MOD:
    case ASS_MULT:
    case ASS_AND:
    case ASS_OR:
    case ASS_XOR:
    case ASS_LSHIFT:
    case ASS_RSHIFT: return true;
    default: return false;
    }
}

struct Dumper
{
    Document& doc;
    TypeChecker tc;
    std::ostream& os;
    explicit Dumper(Document& d, std::ostream& o): doc(d), tc(d), os(o) {}

    std::string ex(const expression_t& e, int depth = 0)
    {
        if (e.empty()) return "(op EMPTY (NULLTYPE))";
        if (depth > 200) return "(op DEEP (NULLTYPE))";
        auto k = e.get_kind();
        if (k == IDENTIFIER) return "(id " + atom(e.get_symbol().get_name()) + " " + ty(e.get_type()) + ")";
        if (k == DOT && e.get_size() == 1) return "(dot " + std::to_string(e.get_index()) + " " + ex(e[0], depth + 1) + ")";
        if (k == ARRAY && e.get_size() == 2)
            return std::string("(idx ") + (tc.isCompileTimeComputable(e[1]) ? "1" : "0") + " " + ex(e[0], depth + 1) + ")";
        if (lvKind(k) && e.get_size() == 1) return std::string("(n1 ") + kindName(k) + " " + ex(e[0], depth + 1) + ")";
        if ((assKind(k) || k == COMMA) && e.get_size() == 2)
            return std::string("(n2 ") + kindName(k) + " " + ex(e[0], depth + 1) + " " + ex(e[1], depth + 1) + ")";
        if (k == INLINE_IF && e.get_size() == 3) {
            bool eq = false;
            try {
                eq = TypeChecker::areEquivalent(e[1].get_type(), e[2].get_type());
            } catch (...) {
            }
            return std::string("(iif ") + (eq ? "1" : "0") + " " + ty(e.get_type()) + " " + ex(e[0], depth + 1) + " " +
                   ex(e[1], depth + 1) + " " + ex(e[2], depth + 1) + ")";
        }
        return std::string("(op ") + kindName(k) + " " + ty(e.get_type()) + ")";
    }

    std::string exinfo(const expression_t& e)
    {
        std::ostringstream s;
        type_t t = e.get_type();
        bool known = t.data != nullptr;
        s << "mod=" << tc.isModifiableLValue(e) << " lv=" << tc.isLValue(e) << " uniq=" << tc.isUniqueReference(e)
          << " tmut=" << (known ? t.is_mutable() : false) << " tconst=" << (known ? t.is_constant() : false) << " ty=" << ty(t)
          << " ex=" << ex(e);
        return s.str();
    }

    void walk(const std::string& ctx, const expression_t& e, int depth = 0)
    {
        if (e.empty() || depth > 200) return;
        auto k = e.get_kind();
        if ((assKind(k) && e.get_size() == 2) || (lvKind(k) && e.get_size() == 1)) {
            os << "X " << ctx << " " << kindName(k) << " " << exinfo(e[0]) << "\n";
        }
        if ((k == FUN_CALL || k == FUN_CALL_EXT) && e.get_size() >= 1) {
            type_t ft = e[0].get_type();
            if (ft.data != nullptr && (ft.get_kind() == FUNCTION || ft.get_kind() == FUNCTION_EXTERNAL)) {
                std::string callee = e[0].get_kind() == IDENTIFIER ? atom(e[0].get_symbol().get_name()) : "?";
                for (uint32_t i = 1; i < e.get_size() && i < ft.size(); ++i) arg(ctx, "fun", callee, i - 1, ft[i], e[i]);
            }
        }
        if (k == SPAWN && e.get_size() >= 1 && e[0].get_symbol() != symbol_t()) {
            // `spawn T(args)`: every argument against the parameter of the dynamic template (TypeChecker: checkSpawnParameterCompatible)
            if (template_t* temp = doc.find_dynamic_template(e[0].get_symbol().get_name()); temp != nullptr) {
                for (uint32_t i = 0; i + 1 < e.get_size() && i < temp->parameters.get_size(); ++i)
                    arg(ctx, "fun", atom(e[0].get_symbol().get_name()), i, temp->parameters[i].get_type(), e[i + 1]);
            }
        }
        for (uint32_t i = 0; i < e.get_size(); ++i) walk(ctx, e[i], depth + 1);
    }

    void arg(const std::string& ctx, const char* what, const std::string& callee, size_t i, type_t p, const expression_t& a)
    {
        bool compat = false;
        try {
            compat = tc.isParameterCompatible(p, a);
        } catch (...) {
        }
        bool ctc = false;
        try {
            ctc = tc.isCompileTimeComputable(a);
        } catch (...) {
        }
        os << "A " << ctx << " " << what << " " << callee << " " << i << " ref=" << p.is(REF) << " const=" << p.is_constant()
           << " compat=" << compat << " ctc=" << ctc << " param=" << ty(p) << " " << exinfo(a) << "\n";
    }

    void frameSyms(const std::string& scope, const frame_t& f)
    {
        if (f.data == nullptr) return;
        for (uint32_t i = 0; i < f.get_size(); ++i) {
            symbol_t s = const_cast<frame_t&>(f)[i];
            type_t t = s.get_type();
            if (t.data == nullptr) continue;
            auto k = t.get_kind();
            if (k == FUNCTION || k == FUNCTION_EXTERNAL || k == TYPEDEF || k == INSTANCE || k == PROCESS || k == LOCATION ||
                k == LSC_INSTANCE || k == PROCESS_SET || k == BRANCHPOINT)
                continue;
            if (t.is(LOCATION) || t.is(BRANCHPOINT)) continue;
            symLine(scope, s.get_name(), t);
        }
    }

    void symLine(const std::string& scope, const std::string& name, type_t t)
    {
        os << "S " << scope << " " << atom(name) << " mut=" << t.is_mutable() << " const=" << t.is_constant()
           << " isC=" << t.is(CONSTANT) << " isRef=" << t.is(REF) << " sub=" << (t.is_array() ? ty(t.get_sub()) : std::string("-"))
           << " strip=" << ty(t.strip()) << " ty=" << ty(t) << "\n";
    }
};

// statements of a function body: write sites of every expression, symbols of every block / iteration frame
struct StmtWalker : public ExpressionVisitor
{
    Dumper& d;
    std::string ctx;
    StmtWalker(Dumper& d, std::string c): d(d), ctx(std::move(c)) {}
    void visitExpression(expression_t e) override { d.walk(ctx, e); }
    int32_t visitIterationStatement(IterationStatement* s) override
    {
        d.frameSyms(ctx + "/iter", s->frame);
        return s->stat ? s->stat->accept(this) : 0;
    }
    int32_t visitBlockStatement(BlockStatement* s) override
    {
        d.frameSyms(ctx + "/block", s->frame);
        return ExpressionVisitor::visitBlockStatement(s);
    }
    int32_t visitEmptyStatement(EmptyStatement*) override { return 0; }
    int32_t visitBreakStatement(BreakStatement*) override { return 0; }
    int32_t visitContinueStatement(ContinueStatement*) override { return 0; }
};

struct DocWalker : public DocumentVisitor
{
    Dumper& d;
    std::string templ = "global";
    explicit DocWalker(Dumper& d): d(d) {}
    bool visitTemplateBefore(template_t& t) override
    {
        templ = atom(t.uid.get_name());
        d.frameSyms(templ + "/param", t.parameters);
        return true;
    }
    void visitTemplateAfter(template_t&) override { templ = "global"; }
    static bool builtinName(const std::string& n)
    {  // INT8_MIN, M_PI, ... (the generators only use names containing a lower-case letter)
        for (char c : n)
            if (c >= 'a' && c <= 'z') return false;
        return true;
    }
    void visitVariable(variable_t& v) override
    {
        if (builtinName(v.uid.get_name())) return;
        d.symLine(templ, v.uid.get_name(), v.uid.get_type());
        d.walk(templ + "/init:" + atom(v.uid.get_name()), v.init);
    }
    void visitFunction(function_t& f) override
    {
        std::string ctx = templ + "/fun:" + atom(f.uid.get_name());
        type_t ft = f.uid.get_type();
        for (uint32_t i = 1; i < ft.size(); ++i) d.symLine(ctx + "/param", ft.get_label(i), ft[i]);
        if (f.body) {
            StmtWalker w(d, ctx);
            f.body->accept(&w);
        }
    }
    void visitLocation(location_t& l) override { d.walk(templ + "/inv", l.invariant); }
    void visitEdge(edge_t& e) override
    {
        std::string ctx = templ + "/edge" + std::to_string(e.nr);
        d.frameSyms(ctx + "/select", e.select);
        d.walk(ctx + "/guard", e.guard);
        d.walk(ctx + "/sync", e.sync);
        d.walk(ctx + "/assign", e.assign);
    }
    void visitInstance(instance_t& inst) override
    {
        type_t type = inst.uid.get_type();
        std::string name = atom(inst.uid.get_name());
        size_t first = type.data ? type.size() : 0;
        for (size_t i = first; i < first + inst.arguments && i < inst.parameters.get_size(); ++i) {
            symbol_t p = inst.parameters[i];
            auto it = inst.mapping.find(p);
            if (it == inst.mapping.end()) continue;
            d.arg("inst:" + name, "inst", inst.templ ? atom(inst.templ->uid.get_name()) : "?", i - first, p.get_type(), it->second);
            d.walk("inst:" + name, it->second);
        }
    }
    void visitProcess(instance_t& inst) override { visitInstance(inst); }
};

static void runCase(const std::string& mode, const std::string& id, const std::string& text)
{
    std::cout << "BEGIN " << id << "\n";
    {
        Document doc;
        bool ok = false;
        std::string exc;
        try {
            if (mode == "XML") {
                int rc = parse_XML_buffer(text.c_str(), &doc, true);
                ok = rc == 0 && !doc.has_errors();
            } else {
                ok = parse_XTA(text.c_str(), &doc, true) && !doc.has_errors();
            }
        } catch (std::exception& e) {
            exc = std::string("exception:") + e.what();
            ok = false;
        }
        std::cout << "V " << (ok ? "accepted" : "rejected") << "\n";
        if (!exc.empty()) std::cout << "E " << vh::quote(exc) << "\n";
        for (auto& e : doc.get_errors()) std::cout << "E " << vh::quote(e.msg) << "\n";
        try {
            std::ostringstream os;
            Dumper d(doc, os);
            DocWalker w(d);
            doc.accept(w);
            d.walk("global/before_update", doc.get_before_update());
            d.walk("global/after_update", doc.get_after_update());
            std::cout << os.str();
        } catch (std::exception& e) {
            std::cout << "E " << vh::quote(std::string("walk-exception:") + e.what()) << "\n";
        }
    }
    std::cout << "END " << id << "\n";
    std::cout.flush();
}

int main(int argc, char** argv)
{
    if (argc >= 3) {  // c12 XTA|XML file   (replay of one model)
        runCase(argv[1], "file", vh::slurp(argv[2]));
        return 0;
    }
    std::string line;
    while (std::getline(std::cin, line)) {
        if (line.empty()) continue;
        std::istringstream is(line);
        std::string mode, id;
        size_t n = 0;
        is >> mode >> id >> n;
        if (mode != "XTA" && mode != "XML") {
            std::cout << "bad-op\n";
            continue;
        }
        std::string text(n, '\0');
        std::cin.read(&text[0], n);
        std::cin.get();  // trailing newline
        runCase(mode, id, text);
    }
    return 0;
}
