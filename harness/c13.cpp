// C13 harness: same line protocol as C11 (diagnostics, function depends sets, restricted sets); see c11_effects.hpp.
#include "c11_effects.hpp"

int main(int argc, char** argv)
{
    std::ios::sync_with_stdio(false);
    bool withModel = argc > 1 && std::string(argv[1]) == "model";
    return c11::runCases(std::cin, std::cout, withModel);
}
