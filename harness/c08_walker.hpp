// Document invariant walker (property C08): the oracle on the *implementation*.
// Traverses everything reachable from a UTAP::Document and reports every place where one of the structural
// invariants stated by C08 does not hold.  Pure observation through public headers (plus one pointer-to-member
// access to the protected instance lists so that instances whose name was later shadowed are visited too).
#pragma once
#include "common.hpp"

#include <set>
#include <sstream>

namespace c08 {
using namespace UTAP;
using namespace UTAP::Constants;

struct DocPeek : public Document
{
    static std::list<instance_t>& insts(Document& d) { return d.*(&DocPeek::instances); }
    static std::list<instance_t>& lscInsts(Document& d) { return d.*(&DocPeek::lsc_instances); }
    static std::list<template_t>& dynTempls(Document& d) { return d.*(&DocPeek::dyn_templates); }
};

struct Walk
{
    std::vector<std::string> viol;  // "clause: where"
    size_t variables = 0, functions = 0, locations = 0, branchpoints = 0, edges = 0, templates = 0, instances = 0,
           processes = 0, partial = 0, dupnames = 0;
    void bad(const std::string& clause, const std::string& where) { viol.push_back(clause + " " + where); }
};

inline bool isNull(const symbol_t& s) { return s == symbol_t(); }

inline void walkVar(Walk& w, variable_t& v, const std::string& where)
{
    ++w.variables;
    if (isNull(v.uid)) { w.bad("user-object:variable-null-uid", where); return; }
    if (v.uid.get_data() != &v) w.bad("user-object:variable", where + "/" + v.uid.get_name());
}

inline void walkDecls(Walk& w, declarations_t& d, const std::string& where)
{
    for (auto& v : d.variables) walkVar(w, v, where);
    for (auto& f : d.functions) {
        ++w.functions;
        if (isNull(f.uid)) { w.bad("user-object:function-null-uid", where); continue; }
        if (f.uid.get_data() != &f) w.bad("user-object:function", where + "/" + f.uid.get_name());
        for (auto& v : f.variables) walkVar(w, v, where + "/" + f.uid.get_name());
    }
}

/// invariants of an instance_t (template, partial instance or process)
inline void walkInstance(Walk& w, instance_t& i, const void* self, const std::string& where, bool isProcess, Document& doc)
{
    if (isNull(i.uid)) { w.bad("user-object:instance-null-uid", where); return; }
    std::string n = where + "/" + i.uid.get_name();
    if (i.uid.get_data() != self) w.bad(isProcess ? "user-object:process" : "user-object:instance", n);
    size_t np = i.parameters.get_size();
    if (i.unbound > np) { w.bad("instance:unbound>parameters", n); return; }
    if (i.unbound > 0) ++w.partial;
    type_t t = i.uid.get_type();
    auto k = t.get_kind();
    if (!isProcess) {
        if (k != INSTANCE && k != LSC_INSTANCE) w.bad("instance:type-kind", n);
        else if (t.size() != i.unbound) w.bad("instance:type-arity", n);
    } else {
        if (k == PROCESS_SET) { if (t.size() != i.unbound) w.bad("process:type-arity", n); }
        else if (k == PROCESS) { if (i.unbound != 0) w.bad("process:type-arity", n); }
        else w.bad("process:type-kind", n);
    }
    // unbound parameters first: the first `unbound` parameters are exactly the ones without a mapping entry,
    // mapping = exactly the bound parameters, each with an argument expression.  "The same parameter" means the same symbol
    // (operator==): parameters of different instantiation levels may share a name, and what the map's own ordering makes
    // of two symbols is part of what is observed here, not something to rely on -- so entries are counted by scanning.
    size_t nbound = 0;
    for (size_t j = 0; j < np; ++j) {
        symbol_t pj = i.parameters[j];
        size_t entries = 0;
        for (auto& [s, e] : i.mapping) entries += (s == pj);
        bool mapped = entries > 0;
        if (j < i.unbound && mapped) w.bad("instance:unbound-parameter-mapped", n + "#" + std::to_string(j));
        if (j >= i.unbound && !mapped) w.bad("instance:bound-parameter-unmapped", n + "#" + std::to_string(j));
        if (entries > 1) w.bad("instance:parameter-mapped-twice", n + "#" + std::to_string(j));
        if (mapped != (i.mapping.find(pj) != i.mapping.end())) w.bad("instance:mapping-lookup-disagrees-with-identity", n + "#" + std::to_string(j));
        if (j >= i.unbound) ++nbound;
    }
    for (auto& [s, e] : i.mapping) {
        bool isBound = false;
        for (size_t j = i.unbound; j < np; ++j) isBound |= (i.parameters[j] == s);
        if (!isBound) w.bad("instance:mapping-key-not-a-bound-parameter", n + "/" + s.get_name());
        if (e.empty()) w.bad("instance:mapping-without-argument", n + "/" + s.get_name());
    }
    if (i.mapping.size() != nbound) w.bad("instance:mapping-size", n);
    if (i.arguments > np - i.unbound) w.bad("instance:arguments>bound", n);
    // templ points to one of the document's templates
    bool found = false;
    for (auto& t2 : doc.get_templates()) found |= (&t2 == i.templ);
    for (auto& t2 : DocPeek::dynTempls(doc)) found |= (&t2 == i.templ);
    if (!found) w.bad("instance:templ-not-in-document", n);
}

inline void walkTemplate(Walk& w, template_t& t, Document& doc, bool checkInit)
{
    ++w.templates;
    std::string tn = isNull(t.uid) ? std::string("?") : t.uid.get_name();
    std::string where = "template:" + tn;
    walkInstance(w, t, static_cast<instance_t*>(&t), "template", false, doc);
    if (t.templ != &t) w.bad("template:templ-self", where);
    walkDecls(w, t, where);
    std::set<const void*> locs, bps;
    std::set<std::string> names;
    int32_t nr = 0;
    for (auto& l : t.locations) {
        ++w.locations;
        locs.insert(&l);
        if (isNull(l.uid)) { w.bad("user-object:location-null-uid", where); ++nr; continue; }
        std::string ln = where + "/" + l.uid.get_name();
        if (!names.insert(l.uid.get_name()).second) ++w.dupnames;
        if (l.uid.get_data() != &l) w.bad("user-object:location", ln);
        if (!l.uid.get_type().is_location()) w.bad("location:type", ln);
        if (l.nr != nr) w.bad("numbering:location", ln + " nr=" + std::to_string(l.nr) + " index=" + std::to_string(nr));
        if (!(l.uid.get_frame() == t.frame)) w.bad("location:frame", ln);
        ++nr;
    }
    nr = 0;
    for (auto& b : t.branchpoints) {
        ++w.branchpoints;
        bps.insert(&b);
        if (isNull(b.uid)) { w.bad("user-object:branchpoint-null-uid", where); ++nr; continue; }
        std::string bn = where + "/" + b.uid.get_name();
        if (b.uid.get_data() != &b) w.bad("user-object:branchpoint", bn);
        if (!b.uid.get_type().is_branchpoint()) w.bad("branchpoint:type", bn);
        if (b.bpNr != nr) w.bad("numbering:branchpoint", bn);
        ++nr;
    }
    nr = 0;
    for (auto& e : t.edges) {
        ++w.edges;
        std::string en = where + "/edge#" + std::to_string(nr);
        if (e.nr != nr) w.bad("numbering:edge", en + " nr=" + std::to_string(e.nr));
        int ns = (e.src != nullptr) + (e.srcb != nullptr), nd = (e.dst != nullptr) + (e.dstb != nullptr);
        if (ns != 1) w.bad("edge:source-count=" + std::to_string(ns), en);
        if (nd != 1) w.bad("edge:target-count=" + std::to_string(nd), en);
        if (e.src && !locs.count(e.src)) w.bad("edge:source-not-in-own-template", en);
        if (e.srcb && !bps.count(e.srcb)) w.bad("edge:source-not-in-own-template", en);
        if (e.dst && !locs.count(e.dst)) w.bad("edge:target-not-in-own-template", en);
        if (e.dstb && !bps.count(e.dstb)) w.bad("edge:target-not-in-own-template", en);
        ++nr;
    }
    if (checkInit && t.is_TA && !(t.dynamic && !t.is_defined)) {
        if (isNull(t.init)) w.bad(t.locations.empty() ? "init:missing-empty-template" : "init:missing", where);
        else if (!t.init.get_type().is_location() || !locs.count(t.init.get_data())) w.bad("init:not-own-location", where + "/" + t.init.get_name());
    }
}

/// `clean` = the parse call returned normally and the document has no errors
inline Walk walk(Document& doc, bool clean)
{
    Walk w;
    walkDecls(w, doc.get_globals(), "globals");
    for (auto& t : doc.get_templates()) walkTemplate(w, t, doc, clean);
    for (auto& t : DocPeek::dynTempls(doc)) walkTemplate(w, t, doc, false);
    for (auto& i : DocPeek::insts(doc)) { ++w.instances; walkInstance(w, i, &i, "instance", false, doc); }
    for (auto& i : DocPeek::lscInsts(doc)) { ++w.instances; walkInstance(w, i, &i, "lsc-instance", false, doc); }
    for (auto& p : doc.get_processes()) { ++w.processes; walkInstance(w, p, &p, "process", true, doc); }
    // symbol side: every symbol of the global frame typed as an instance/process points to an object that names it
    frame_t g = doc.get_globals().frame;
    for (uint32_t i = 0; i < g.get_size(); ++i) {
        symbol_t s = g[i];
        auto k = s.get_type().get_kind();
        if (k == INSTANCE || k == LSC_INSTANCE || k == PROCESS || k == PROCESS_SET) {
            auto* o = static_cast<instance_t*>(s.get_data());
            if (!o) { w.bad("symbol:instance-without-object", s.get_name()); continue; }
            bool known = false;
            for (auto& t : doc.get_templates()) known |= (static_cast<instance_t*>(&t) == o);
            for (auto& t : DocPeek::dynTempls(doc)) known |= (static_cast<instance_t*>(&t) == o);
            for (auto& x : DocPeek::insts(doc)) known |= (&x == o);
            for (auto& x : DocPeek::lscInsts(doc)) known |= (&x == o);
            for (auto& x : doc.get_processes()) known |= (&x == o);
            if (!known) { w.bad("symbol:instance-object-not-in-document", s.get_name()); continue; }
            if (!(o->uid == s)) w.bad("symbol:instance-object-names-other-symbol", s.get_name());
        }
    }
    return w;
}

}  // namespace c08
