#!/usr/bin/env python3
"""Writes MANIFEST.json from the table below (kept as code so that the 20 entries stay consistent)."""
import json

CHECKS = {
 "C18": dict(
   text="Lean 4 proof over two models regenerated from include/utap/range.h on every run: for integral T (arithmetic in Int, i.e. no "
        "overflow) 57 theorems give the set-theoretic membership characterisation of every range_t operation for all integers, including the case where the range operand of a compound assignment is the object itself (r -= r: regenerated ...Self definitions, 7 theorems); for "
        "floating-point T the order-theoretic operations (gt lt geq leq & | contains intersects == <, incl. the +-infinity branches) "
        "are proved over an abstract linear order with infinities and nexttoward as successor. The translator is validated by "
        "running the generated model and the real range_t<int32_t> on the same operation lines; a direct set-semantics oracle "
        "on the implementation (exhaustive for int8_t) produces the replay when a proof or the correspondence breaks.",
   note="Trusted: Lean kernel, axioms propext/Quot.sound/Classical.choice, translate/range_h.py (validated by the correspondence), "
        "harness/c18.cpp. Floating point: the FloatLike axioms are assumed of IEEE double (NaN excluded, -0.0 = +0.0); "
        "floating-point + - * round and are not claimed (boundary values are tested by the oracle).",
   technique="Lean 4 theorems over a model translated from range.h + differential correspondence",
   design="4/C18"),
}
CHECKS["C02"] = dict(
   text="Lean 4 proof, for an operator-precedence model of the Expression grammar whose table is regenerated from parser.y / lexer.l / "
        "keywords.cpp on every run: parse(render_min t) = t and parse(render_full t) = t for every tree over the full operator set "
        "(unary, binary, assignment family, inline-if, indexing, field access, calls, builtin functions, quantifiers, rate; unbounded size), "
        "any redundant parentheses, alias / unary-plus / imply laws, exact-or-rejected integer literals, and equality (by decide) of the "
        "generated table with a hand-written reference operator table, and of the 61 builtin functions (name, node kind, arity) with a hand-written "
        "reference list (utap_builtins_match_spec); the length guards of the identifier and string-literal rules of lexer.l are translated and "
        "C02_identifier_not_truncated / C02_string_not_truncated prove that no name or string that is not reported is cut by the token buffer. "
        "The model parser is compared with the real parser on every operator "
        "pair/triple, random trees, mutated token strings, boundary literals, calls of process sets (argument order) and every builtin name, all "
        "in one process with rejected inputs (unterminated comment, string, bracket) interleaved; the reference table decides disagreements and yields the replay. Comma lists (ExprList): the recursion direction is read from parser.y and C02_comma_list / utap_comma_matches_spec give the left-nested tree for lists of any length; lists of 1-8 elements are compared in ten contexts.",
   note="Trusted: Lean kernel, axioms propext/Quot.sound/Classical.choice, translate/exprgrammar.py, harness/c02.cpp, the reference table "
        "Spec/OperatorTable.lean (hand-written from the UPPAAL language reference). That bison's LALR automaton behaves as the "
        "operator-precedence model is validated by the correspondence, not proved. Double literals: nearest-double conversion is tested "
        "against Python float(), not proved. Identifier binding is C07. New (4.x) syntax only.",
   technique="Lean 4 round-trip theorem for a Pratt model over a table translated from parser.y + differential correspondence",
   design="4/C02")
CHECKS["C03"] = dict(
   text="Lean 4 proof: a token-level model of expression_t::print (layout per kind with embrace / embrace_strict, tables regenerated from "
        "expression.cpp get_precedence/print on every run) composed with the grammar model of C02: parse(str e) = e and "
        "str(parse(str e)) = str e for every tree (all operator pairs and positions, unbounded) that meets a computed, decidable criterion; "
        "the criterion's failures are enumerated from the tables as (parent, position, child) classes, each with a regenerated witness "
        "theorem proving the negation, and replayed on the library. Correspondence: real str() against the model's token stream, real "
        "parse/str/parse/equal/str on random accepted trees and all witnesses. Verification queries: a query layer (Model/Query.lean) for A<> A[] E<> E[] "
        "--> A[U] A[W], control / E<> control / control_t* / {..} control, sup / inf / bounds, whose printer is driven by the layouts regenerated "
        "from expression_t::print and whose parser's productions are proved to be productions of parser.y with the same callbacks "
        "(C03_query_tables): C03_query_roundtrip, parse(str q) = q for every such query over operands of any size that meet the criterion; compared "
        "with the real query parser and printer on every generated query. The statistical forms Pr[B](<> e), Pr[B]([] e), Pr[B](a U b), E[B](max|min: e), "
        "simulate[B]{..} with the bounds <=e, #<=e, l<=e and an optional run count (Model/QuerySmc.lean; their print cases are conditional, so the "
        "translator matches their whole texts and regenerates the terminals of their literals): C03_smc_roundtrip; hypothesis tests Pr[B](..) >= p, comparisons Pr[B](..) >= Pr[B'](..) and "
        "simulate[B]{..} : n : e (Model/QuerySmc2.lean): C03_smc2_roundtrip. `<= p` forms (the builder negates the predicate and computes 1 - p), "
        "minE/maxE, strategies and the Buchi form are exercised on the real library by the same "
        "oracle but are outside the Lean model (testing). String constants are modelled at "
        "the text level (std::quoted on output, the lexer rule, std::quoted on input): C03_string_roundtrip for every non-empty value without a double quote.",
   note="Trusted: Lean kernel, axioms propext/Quot.sound/Classical.choice, translate/printer.py + exprgrammar.py, harness/c02.cpp, c03q.cpp. "
        "The theorem is about token streams; that lexing the printed text gives those tokens is checked per case, not proved. The digits of "
        "a double literal (kept as text in the model; the library's shortest round-trip text is predicted by the check), the quantifier binder type "
        "text and the strategy / MITL query syntax are not modelled: deviations there are found by the differential oracle only (1 known finding "
        "listed in known_findings.d/C03.json: binder types printed as s-expressions; 9 defect keys repaired by fix: commits, the last four -- bounds "
        "l<=e, --2147483648, 6-digit doubles -- after they had first been recorded as known). The exception classes of the printer on the pinned tree "
        "(all of the form callee-is-not-a-name) are listed in corpus/c03/exception_classes.txt; a class that is not on the list is reported. "
        "That bison's LALR automaton on the query productions behaves as the hand-written query parser is validated by comparing trees, not proved.",
   technique="Lean 4 print/parse round-trip theorem over tables translated from expression.cpp and parser.y + differential correspondence",
   design="4/C03")

T = "Trusted: Lean kernel, axioms propext/Quot.sound/Classical.choice, "
def add(pid, text, note, technique):
    CHECKS[pid] = dict(text=text, note=note, technique=technique, design="4/" + pid)

add("C01",
    "PARTIAL. Proved in Lean 4 (the part that is logic): a production table regenerated on every run from parser.y and bison's automaton "
    "(every production, mid-rule actions in place, bison's error recovery as virtual nonterminals) with a twelve-counter model of the builder "
    "stacks and current-object pointers; theorem safe_of_locally_balanced (induction over all derivations, complete, abandoned at any symbol "
    "boundary or recovering through error productions): if every production passes a decidable local balance check, no callback ever reaches "
    "below the level its production was entered at or dereferences a null current object; the instance for today's table is closed by "
    "decide +kernel outside a computed, pinned exception set whose members each have a witness input that is replayed on the library. The effect "
    "table is validated on every traced callback (~265k per run). NOT proved (no C++ semantics available): memory safety of flex/bison tables, "
    "libxml2, the heap, recursion depth and running time; these are exercised by a sanitizer stream (ASan+UBSan+_GLIBCXX_ASSERTIONS, timeouts) over "
    "all nine entry points with grammar-derived, mutated and deep inputs - that part is testing and is labelled so in the evidence.",
    T + "translate/grammar.py, grammar_trace.py, Model/C01Effect.lean (hand-written effect rows, validated by the trace correspondence), harness/c01*.cpp. "
    "Not modelled: types of stack entries, statement lists of blocks, PrettyPrinter's own stacks, null attribute arguments of the XML reader, "
    "stack depth, time. Known findings (stack overflow on deep chains, nested array declarator resetting the static types counter, rate of a "
    "non-identifier) are listed in known_findings.d/C01.json; 10 defects were repaired by fix: commits.",
    "Lean 4 stack-discipline theorem over a grammar table translated from parser.y + trace correspondence; sanitizer stream (testing) for the runtime part")

add("C04",
    "Lean 4 proof: for every well-formed abstract model M (any number of templates, parameters, locations, branchpoints, edges, labels, "
    "instances, processes) build(readXml(renderXml M)) = docOf M with empty builder stacks, where readXml is a tree-level model of "
    "xmlreader.cpp's recursive descent and build a model of the DocumentBuilder callbacks (C04_reader, C04_roundtrip, C04_no_extra, "
    "C04_args_positional, C04_instance_binding); the exception shape (exponentialrate label before invariant) has a proved witness. The reader and "
    "builder tables the model relies on are regenerated from xmlreader.cpp / DocumentBuilder.cpp / document.cpp and checked by decide "
    "(C04_tables_*); the correspondence runs generated XML models through the real parse_XML_buffer and compares the callback trace and the "
    "document dump with the model's. The invariant the type checker stores for a location (RateDecomposer, Model/RateDecomp.lean, its open points "
    "read from typechecker.cpp by translate/ratedecomp.py): C04_invariant_conjuncts -- for every invariant (any nesting of conjunctions, rates, "
    "quantifiers) the stored invariant is 1 followed by exactly the conjuncts of the source that are not cost rates, each once, in source order, a "
    "quantified conjunct whole -- with C04_invariant_count, C04_cost_rate, C04_rate_flags; compared with the real library on generated invariants "
    "(harness op ratedec) together with an oracle of the statement itself.",
    T + "translate/xml_tables.py, translate/ratedecomp.py, checks/c04_model.py (generator/renderer), checks/c04_rate.py, harness/c04.cpp. Not modelled: "
    "LSC templates, queries, the text layer (libxml2 itself), global last-wins lookup among equally named objects; cost variables cannot be declared in "
    "this grammar, so the cost-rate branch of the decomposer is proved but not exercised. 1 known finding (label order), 2 defects repaired (comment "
    "before closing tag; nested quantified invariant stored twice, found by the Lean model).",
    "Lean 4 round-trip theorem for models of the XML reader and document builder + table translation + trace/dump correspondence")

add("C05",
    "Lean 4 proof: for every model of the common subset and every choice of full/chained transitions, the document built from the XTA "
    "rendering (model of the process productions of parser.y incl. the static rootTransId) equals the document built from the XML rendering "
    "(C05_equivalent, C05_xta_document, C05_chaining_irrelevant); C05_tables ties the section order of Transition productions to the current "
    "grammar. Diagnostics and the supported-methods verdict are functions of the document in the library (static_analysis never sees the front "
    "end); their equality is compared on the real library: dump + diagnostics + verdict of parse_XML_buffer(xml M) vs parse_XTA(xta M), 20% of "
    "the models fault-injected so that diagnostics occur.",
    T + "the C04 machinery, harness/c04.cpp. Outside the common subset (not claimed): urgent+committed on one location, duplicate names, probability "
    "on chained transitions. Known finding: default action name SKIP vs empty.",
    "Lean 4 equivalence theorem over models of the two front ends + differential run of both real front ends")

add("C06",
    "PARTIAL (flex's tokenisation is modelled, not verified). Lean 4 proof over definitions regenerated from lexer.l (all rules: start condition, "
    "pattern class, tracker.newline argument), libparser.h, position.cpp, document.cpp and xmlreader.cpp (tie_* theorems state that the regenerated "
    "definitions are the model's): binary search returns the last entry <= pos on every monotone table (C06_find); the line table built while "
    "scanning ANY text resolves every settled position to the count-the-newlines line and column (C06_linecol, C06_linecol_lexemes) unless a "
    "string literal contains a newline (witness proved, known finding); the XPath printed for a node selects exactly that node for every row "
    "that agrees with tag_map (C06_xpath, C06_xpath_rows); token ranges are ordered and inside the block, YYLLOC_DEFAULT keeps that (C06_ranges_*); a "
    "one-line token's diagnostic covers exactly the token. Correspondence: the line table of the real library for every offset of generated "
    "blocks, XPath of every diagnostic of fault-injected XML models evaluated with libxml2's DOM.",
    T + "translate/pos_tables.py (fails closed on unknown rule shapes), harness/c06.cpp. Which diagnostic the type checker attaches to which "
    "expression position is checked by fault injection (testing), not proved.",
    "Lean 4 theorems over lexer/position/XPath models translated from the source + differential correspondence and fault injection")

add("C07",
    "Lean 4 proof: the scope machine of the builder (symbol heap, frame store with parent links, per-frame name->last-index map, frame stack, "
    "frame_t::resolve) computes on every well-nested script of enter/leave/declare/use events exactly the declarative binding (innermost open scope, "
    "latest preceding declaration): C07_binding, C07_innermost, C07_latest, C07_unknown, C07_bound_is_declared; the four machine operations "
    "are linked to the builder-model callbacks that perform them, and C07_grammar_frame_balanced (decide over the table regenerated from parser.y) "
    "shows every production pushes and pops frames in matched pairs. Correspondence: generated models (blocks, functions, parameters, select, "
    "quantifiers with parenthesised and unparenthesised bodies, nested brace-less iterations, typedef names shadowed by variables, edges with unresolvable "
    "endpoints, templates, shadowing) through the real parser with a TraceBuilder recording the symbol bound by every expr_identifier; P.x queries for one- and "
    "two-step instantiations; nested dynamic quantifiers with equal binder names. `P.x ... with P's arguments substituted`: a model of "
    "expression_t::subst, type_t::subst and the substitution rounds of expr_dot (Model/TypeSubst.lean; the three C++ texts are matched and the "
    "number of rounds regenerated by translate/typesubst.py): C07_member_type_closed -- after the rounds no parameter of any instantiation step is left "
    "in the type, for every acyclic mapping in ANY storage order (the mapping is a std::map over symbol addresses) --, C07_member_type_order_irrelevant, "
    "the substitution laws of C19 (identity, exact replacement, commutation), and the witness that one round is not enough; the model's result is "
    "compared with the library's type of every chain query, on the sanitizer and on the -O2 build (the allocators order addresses differently).",
    T + "translate/c16_grammar.py, translate/typesubst.py, harness/c07.cpp, c08 TraceBuilder. Declarations are told apart by unique range types (decl_var passes no position). "
    "Duplicate definitions (an error) are outside the property. 3 defects repaired (chained P.x substitution, dynamic binder stack; see DESIGN 9.3).",
    "Lean 4 refinement theorem (scope machine = declarative binding) + trace correspondence")

add("C08",
    "Lean 4 proof: Inv (user object of own symbol, back pointers, exactly one source/target of the right kind per edge, dense numbering in creation "
    "order, instance parameter/argument structure) holds initially and is preserved by EVERY callback of the builder model including all error "
    "and throw branches, hence in every reachable state for any callback sequence whatsoever (C08_init, C08_step, C08_reachable and corollaries); "
    "own-template and init-location clauses under the callers' discipline (C08_own_template, C08_init_own_location, C08_init_location). "
    "Correspondence: TraceBuilder (generated from builder.h) feeds the real callback sequences of generated and faulted XML/XTA inputs to the Lean "
    "model and compares stack depths and document shape; an invariant walker checks the real Document after every parse. C08_mapping_exact: the keys of an instance mapping are pairwise distinct symbols and exactly the bound parameters; instantiation chains whose own parameters share names with the ones they bind exercise it.",
    T + "Model/Builder.lean (hand-written reading of DocumentBuilder/StatementBuilder/ExpressionBuilder, validated by the trace correspondence), "
    "translate/c08_builder_h.py, harness/c08*.  Expressions are opaque identities. Known finding: an XTA process with an empty body is accepted without init.",
    "Lean 4 invariant by induction over all builder callback sequences + trace correspondence + invariant walker on the implementation")

add("C09",
    "Lean 4 proof over lexer/keyword/grammar tables regenerated from lexer.l, keywords.cpp, parser.y: inserting or removing trivia (blanks, "
    "newlines, line and block comments) between tokens leaves the token stream unchanged (C09_trivia*); renaming an identifier injectively to a "
    "fresh identifier-shaped name outside the computed exception names commutes with lexing and with name resolution (C09_rename_*, "
    "C09_scope_equivariant); keyword aliases (and/&&, or/||, not/!, :=/=) have identical grammar roles and callback traces (C09_alias_*) and occur in "
    "exactly the same productions of the WHOLE grammar, query forms included (C09_alias_contexts over a table of every occurrence); redundant "
    "parentheses do not change the parse (C09_paren*, Pratt model shared with C02). Exception shapes have proved witnesses and are replayed. "
    "Correspondence/oracle: verdict and diagnostics of the real library on generated models and queries before/after each rewrite family.",
    T + "translate/c09_tables.py, harness/c09.cpp. The LALR automaton is represented by the operator-precedence model (validated in C02). Known findings: "
    "one-letter tokens / soft keywords in queries and in syntax-error texts. 2 defects repaired (typedef named A/U/R/W/E, EXPECT: in comments).",
    "Lean 4 equivariance theorems over tables translated from lexer.l/keywords.cpp/parser.y + metamorphic differential oracle")

add("C10",
    "Lean 4 proof over the typing clauses regenerated from typechecker.cpp on every run: for formula trees of ANY depth over clock bounds, clock "
    "differences, integer predicates and && || ! imply xor == != forall exists, whatever is accepted as a guard or as an invariant is convex "
    "(C10_guard_sound, C10_invariant_sound), integral-typed formulas contain no clock (C10_integral_clockfree), the shapes the statement lists are "
    "rejected (C10_listed_shapes_rejected), and every conjunction of accepted atoms is accepted (C10_conj_complete_*); per-operator facts are complete "
    "tables over the 39 type kinds by decide +kernel. The computed exception set leafExceptions is empty on the current tree (it was [(NEQ,CLOCK,CLOCK)] "
    "before the fix: commit). Correspondence: 13.8k operand/operator combinations and 7.2k formulas as guard and invariant in real XML models vs the model; "
    "independent convexity oracle on the implementation's verdicts.",
    T + "translate/typeclauses.py (own C++ subset parser, fails closed), harness/c10.cpp, c14.cpp. Observations outside the quantifier: inline-if laundering, "
    "bounds that are boolean expressions.",
    "Lean 4 soundness/completeness theorems over typing rules translated from typechecker.cpp + differential correspondence")

add("C11",
    "Lean 4 proof over a configuration regenerated from expression.cpp (get_symbols, collect_possible_writes), statement.h/.cpp (visitor fields) and "
    "typechecker.cpp (check sites): for every program and expression, if the expression may write state in the declarative sense (assignment family, "
    "++/--, calls to functions whose bodies write, through any statement nesting and call chain) then changes_any_variable reports it "
    "(C11_sound_*, C11_function_changes), side-effect-free twins are not rejected (C11_twin*), and every context the property lists has a check site "
    "(C11_contexts, C11_sites_complete); general theorems hold for every configuration satisfying decidable completeness predicates, today's "
    "instance by decide. Correspondence: real function_t::changes and the verdicts on contexts x write forms, random programs with Python ground truth. The type walk of the checker (checkType per case, its call sites, strip_array) is translated too: C11_every_dimension_checked.",
    T + "translate/effects.py (fails closed), harness/c11*.  The harness reads private members of TypeChecker (#define private public, read-only). "
    "1 defect repaired (P.f() in queries).",
    "Lean 4 soundness theorem for the write analysis over tables translated from the source + differential correspondence")

add("C12",
    "Lean 4 proof (kind lists and branch shapes regenerated from type.cpp / typechecker.cpp / the binder callbacks): for lvalue paths of any length "
    "and types of any depth, a target rooted in a constant (declared const, const member, constant parameter, binder of select / quantifier / "
    "for-iteration) is never a modifiable lvalue (C12_reject), hence every write kind, reference argument and instantiation argument on it is rejected "
    "(C12_write_rejected, C12_ref_argument_rejected, C12_inst_argument_rejected, C12_binder_*), get_sub keeps constness (C12_getSub_keeps_const, "
    "C12_static_type_const), and the mutable twin is accepted (C12_accept, C12_write_accepted, C12_decl_constFree_accepted). Correspondence: 411k verdicts of "
    "the real type checker on generated declarations x paths x write forms vs the model, with an independent oracle.",
    T + "translate/constness.py, harness/c12.cpp. 1 defect repaired (const array member in a struct).",
    "Lean 4 theorems over constness rules translated from the source + differential correspondence")

add("C13",
    "Lean 4 proof over the same regenerated configuration as C11: an expression accepted in a compile-time context (array size, range bound, "
    "initialiser of a constant, value argument of an instantiation) does not depend, through any chain of function calls and statement nesting, on a "
    "variable that is not a constant (C13_sound, C13_rejects, C13_function_depends, C13_contexts, C13_argument); random builtins at the root are "
    "caught (C13_random_root) and nested ones since the fix: commit (C13_random_partial with the regenerated flag). Computed exception set: random "
    "inside function bodies, free process parameter reached through a function body - each with a proved witness, replayed on the library. "
    "Correspondence: real function_t::depends, isCompileTimeComputable and verdicts on generated programs.",
    T + "translate/effects.py, harness/c13.cpp. 2 known findings, 1 defect repaired.",
    "Lean 4 soundness theorem for the dependency analysis over tables translated from the source + differential correspondence")

add("C14",
    "Lean 4 proof over rules regenerated from typechecker.cpp and type.h on every run, for ALL types (arbitrary nesting of prefixes, REF, LABEL, RANGE, "
    "ARRAY, RECORD): typeBin op a b = typeBin op b a for + * == != && || & | ^ <? >? (typeBin_symm), areEquivalent / areEqCompatible / isSameScalarType "
    "symmetric, inline-if acceptance symmetric under branch swap with negated condition (inlineIf_accept_symm), reference-parameter acceptance "
    "independent of which side carries REF/CONST (refParam_symm); result kind symmetric outside a computed exception set (two different integral "
    "kinds; witness proved, known finding). Correspondence: 115k questions to the real checkExpression/areEquivalent/isModifiableLValue vs the model.",
    T + "translate/typeclauses.py, harness/c14.cpp. 2 defects repaired by one-token fix: commits (t1/t2, EF/REF).",
    "Lean 4 symmetry theorems over typing rules translated from typechecker.cpp + differential correspondence")

add("C15",
    "Lean 4 proof over definitions regenerated from lexer.l / libparser.h / position.cpp / parser.y (global accesses): below 2^32 the position machinery is "
    "translation invariant - every settled position of a block resolves to the same (path, line, column) whatever the counter's starting value and the "
    "table's earlier content, and no exception is raised (C15_shift, C15_shift_text); every parser global is overwritten before use or written before "
    "read (C15_reinit, C15_rootTransId_written_first, C15_types_written_first); flex's start condition is back to INITIAL at end of input "
    "(C15_yyStart_restored); yylloc is initialised (C15_eof_location_with_init). The 2^32 wrap has a proved witness (known finding). Correspondence: the "
    "same calls in one process vs each in a fresh forked process (rc, exception class, diagnostics, document dump, methods, query tree).",
    T + "translate/pos_tables.py, harness/c15.cpp. Builder/Document objects are per call; static data inside libxml2 is not modelled. 1 defect repaired (yylloc).",
    "Lean 4 translation-invariance and reinitialisation theorems over translated definitions + history-differential correspondence")

add("C16",
    "Lean 4 proof on the builder model: for ALL callback lists a label's text can produce (expression-level callbacks, valid, faulty or abandoned by error "
    "recovery) followed by the label's own callback, the document outside that label's field is unchanged, the fragment stack keeps its base, and the "
    "frame stack is restored exactly when the binders are balanced (C16_label_text_keeps_doc, C16_label_frame, C16_fragments*, C16_frames_balanced); declaration "
    "blocks only extend (C16_decl_prefix). The exception shapes (a quantifier binder abandoned between push and pop) are computed from the grammar table "
    "regenerated from parser.y (C16_exception_shapes), negated on witnesses and replayed. Correspondence/oracle: single-fault injection into one block of "
    "generated models; every other field of the dump and the attribution of every diagnostic must equal the fault-free run. The model-wide CSP/IO synchronisation-style check (a state machine read from visitEdge) is modelled: C16_sync_attribution and C16_sync_first_label_witness prove on which labels it is reported (a known finding), and the library is compared with it.",
    T + "translate/c16_grammar.py, Model/Builder.lean (validated by the C08 trace correspondence), harness/c16.cpp. Known findings: leaked binder frames "
    "(7 callbacks), one cascading diagnostic.",
    "Lean 4 frame theorem over all label callback lists + grammar-derived exception shapes + fault-injection oracle")

add("C17",
    "Lean 4 proof for EVERY configuration of the feature checker (Cfg.current is regenerated from featurechecker.cpp / expression.cpp on every run): for "
    "documents of any size, if no placement of a restricting feature in the model lies in the computed set exceptions cfg, the reported verdict is sound "
    "w.r.t. the property's specification (C17_partial, C17_full_of_no_exceptions); never-instantiated templates and declaration order do not affect it "
    "(C17_uninstantiated, C17_order_irrelevant, full strength); each excepted placement has a witness document with the negation proved. After the five fix: "
    "commits the set is two placements (rate below a quantifier; known findings). Correspondence/oracle: every placement x operator x operand order x "
    "declaration site as a real model through parse_XML_buffer, verdict vs specification and vs model.",
    T + "translate/feature.py, harness/c17.cpp. The abstract document (which expressions are guards etc.) is our reading of document.h.",
    "Lean 4 soundness theorem parameterised by a configuration translated from featurechecker.cpp + placement oracle")

add("C19",
    "Lean 4 proof on trees with node identities (arity table regenerated from expression_t::get_size): equal is reflexive, symmetric, transitive; "
    "clone_deeper yields an equal tree sharing no node with the original, and mutating either leaves the other unchanged; subst replaces exactly the "
    "occurrences of the symbol, leaves the source untouched and is the identity for self-substitution; equal distinguishes trees differing in a kind, "
    "symbol, constant or operand order (20 theorems, all sizes). equal => same text is proved outside a computed exception shape (constants of "
    "different type class, witness b==true / b==1 proved and replayed; known finding). Correspondence: 1.1M law instances on the real expression_t API "
    "over parsed trees and their mutations.",
    T + "translate/arity.py, harness/c19.cpp. NaN constants excluded (the parser cannot produce one).",
    "Lean 4 algebraic laws over a heap model of expression_t + law checking on the implementation")

add("C20",
    "Lean 4 proof: for a writer model parameterised by a configuration computed from tables regenerated from xmlwriter.cpp, readGraph(writeXml d) = "
    "graphOf d for every document none of whose shapes is in the computed exception set (C20_partial), writing crashes exactly on the computed crash "
    "shapes (C20_crash_iff), written ids are unique (C20_ids_unique), each exception shape has a proved witness (C20_witness). Correspondence: generated "
    "documents written by the real write_XML_file, read back with libxml2's tree API and compared field by field with the document and the model's "
    "predicted deviations.",
    T + "translate/xml_tables.py, harness/c04.cpp (op write). Layout coordinates are not compared. Known findings: 2nd+ select binding and select type "
    "not written, crash on a process with free parameters. 2 defects repaired (probability/controllable, branchpoint edges).",
    "Lean 4 round-trip theorem for a writer model configured from xmlwriter.cpp + write/read-back correspondence")
NOT_APPLICABLE = {}
ALL = ["C%02d" % i for i in range(1, 21)]
PENDING = "check not built yet in this revision (work in progress, see DESIGN.md section 8 order of work)"

m = {
 "version": 1,
 "setup_cmd": "./check --setup",
 "hooks": {"guard": "UTAP_VERIF", "enable": "checks compile /repo's working tree themselves with -DUTAP_VERIF (vlib/core.py build_repo)",
           "baseline_off_cmd": "cmake -S /repo -B /repo/_build -G Ninja && cmake --build /repo/_build && ctest --test-dir /repo/_build -j8 --timeout 900",
           "source_commits": ["0c3c40a"], "add_only": True},
 "engines": [{"name": "lean4-proof", "path": "lean/", "serves_properties": sorted(CHECKS),
              "kind_free_text": "Lean 4.33 models + theorems; python translators; C++ correspondence harnesses"}],
 "checks": [],
 "notes": "See DESIGN.md. Findings: KNOWN_FINDINGS.json + known_findings.d/*.json (status known / fixed).",
 "not_applicable": [],
}
for pid in ALL:
    if pid in CHECKS:
        c = CHECKS[pid]
        m["checks"].append({
            "property_id": pid, "quick_cmd": "./check %s --tier quick" % pid, "thorough_cmd": "./check %s --tier thorough" % pid,
            "evidence_file": "/verif/evidence/%s.json" % pid, "replay_cmd_template": "./check %s --replay {path}" % pid,
            "engine": "lean4-proof", "level_claimed": {"category": "proof", "text": c["text"], "design_ref": c["design"]},
            "level_note": c["note"], "technique": c["technique"]})
    else:
        m["not_applicable"].append({"property_id": pid, "reason": NOT_APPLICABLE.get(pid, PENDING)})
json.dump(m, open("MANIFEST.json", "w"), indent=1)
print("checks:", len(m["checks"]), "not_applicable:", len(m["not_applicable"]))
