/- Definitions and helper lemmas for Props/C16.lean. -/
import UtapModel.Model.C16

namespace UtapModel.Builder

/-- callbacks a label's token string can fire before the label's own callback -/
def Call.isExprCall : Call → Bool
  | .handleError | .handleWarning | .frag _ _ | .exprIdentifier _ | .quantBegin _ | .quantEnd | .dynQuantBegin _ | .dynQuantEnd
  | .typeDuplicate | .typePop | .typePrim _ _ _ | .typeName _ | .typeArrayOfSize _ | .typeArrayOfType _ | .typeStruct | .structField => true
  | _ => false

/-- effect of an expression-level callback on the depth of the frame stack -/
def Call.frameDelta : Call → Int
  | .quantBegin _ | .dynQuantBegin _ => 1
  | .quantEnd | .dynQuantEnd => -1
  | _ => 0

/-- depth of frames pushed above the entry level after the list; `none` if the list pops below its entry level -/
def frameBal : Nat → List Call → Option Nat
  | d, [] => some d
  | d, c :: cs =>
    if c.frameDelta = 1 then frameBal (d + 1) cs
    else if c.frameDelta = -1 then (if d = 0 then none else frameBal (d - 1) cs)
    else frameBal d cs

theorem typeName_frames (s : BState) (n : String) : (step s (.typeName n)).frames = s.frames := by
  simp only [step]
  cases s.resolveSym n with
  | none => rfl
  | some p => obtain ⟨sid, ⟨nm, ty, u⟩⟩ := p; cases ty <;> rfl

/-- operands popped / pushed on the expression stack by an expression-level callback -/
def Call.fragNeed : Call → Nat × Nat
  | .frag p q => (p, q)
  | .exprIdentifier _ => (0, 1)
  | .quantEnd => (1, 1)
  | .dynQuantEnd => (2, 1)
  | .typePrim _ fp _ => (fp, 0)
  | .typeArrayOfSize _ => (1, 0)
  | _ => (0, 0)

/-- number of expressions above the entry level after the list; `none` if some callback reaches below the entry level -/
def fragBal : Nat → List Call → Option Nat
  | d, [] => some d
  | d, c :: cs => if d < c.fragNeed.1 then none else fragBal (d - c.fragNeed.1 + c.fragNeed.2) cs

theorem frag_effect (s : BState) (c : Call) (h : c.isExprCall = true) :
    ∃ new, new.length = c.fragNeed.2 ∧ (step s c).fragments = new ++ s.fragments.drop c.fragNeed.1 := by
  cases c <;> simp [Call.isExprCall] at h
  case frag p q => exact ⟨(List.range q).map (fun i => s.nextExpr + i), by simp [Call.fragNeed], by simp [step, BState.popFrag, Call.fragNeed]⟩
  case exprIdentifier n => exact ⟨[s.nextExpr], rfl, by simp [step, BState.pushFresh, Call.fragNeed]⟩
  case quantEnd => exact ⟨[s.nextExpr], rfl, by simp [step, BState.pushFresh, BState.popFrag, BState.popFrame, Call.fragNeed]⟩
  case dynQuantEnd => exact ⟨[s.nextExpr], rfl, by simp [step, BState.pushFresh, BState.popFrag, BState.popFrame, Call.fragNeed]⟩
  case typePrim a fp b => exact ⟨[], rfl, by simp [step, BState.popFrag, BState.pushType, Call.fragNeed]⟩
  case typeArrayOfSize n => exact ⟨[], rfl, by simp [step, BState.popFrag, BState.pushType, BState.popType, Call.fragNeed]⟩
  case typeName n =>
    refine ⟨[], rfl, ?_⟩
    simp only [step, Call.fragNeed, List.drop_zero, List.nil_append]
    cases s.resolveSym n with
    | none => rfl
    | some p => obtain ⟨sid, ⟨nm, ty, u⟩⟩ := p; cases ty <;> rfl
  all_goals exact ⟨[], rfl, rfl⟩

/-- declarations only accumulate: old variables / functions stay where they are, old symbols keep name and user data -/
structure Grows (s s' : BState) : Prop where
  vars : s.doc.vars <+: s'.doc.vars
  funs : s.doc.funs <+: s'.doc.funs
  locs : s.doc.locs <+: s'.doc.locs
  bps : s.doc.bps <+: s'.doc.bps
  syms : ∀ (sid : SymId) (sym : Symbol), s.syms[sid]? = some sym → ∃ sym' : Symbol, s'.syms[sid]? = some sym' ∧ sym'.name = sym.name ∧ sym'.user = sym.user ∧
    (sym.ty.isLocation = true → sym'.ty.isLocation = true)

theorem Grows.refl (s : BState) : Grows s s := ⟨List.prefix_refl _, List.prefix_refl _, List.prefix_refl _, List.prefix_refl _, fun _ sym h => ⟨sym, h, rfl, rfl, id⟩⟩

theorem Grows.trans {a b c : BState} (h1 : Grows a b) (h2 : Grows b c) : Grows a c :=
  ⟨h1.vars.trans h2.vars, h1.funs.trans h2.funs, h1.locs.trans h2.locs, h1.bps.trans h2.bps, fun sid sym h => by
    obtain ⟨s1, e1, n1, u1, l1⟩ := h1.syms sid sym h
    obtain ⟨s2, e2, n2, u2, l2⟩ := h2.syms sid s1 e1
    exact ⟨s2, e2, n2.trans n1, u2.trans u1, fun hl => l2 (l1 hl)⟩⟩

theorem Grows.of_eq {s s' : BState} (h1 : s'.syms = s.syms) (h2 : s'.doc.vars = s.doc.vars) (h3 : s'.doc.funs = s.doc.funs)
    (h4 : s'.doc.locs = s.doc.locs := by rfl) (h5 : s'.doc.bps = s.doc.bps := by rfl) : Grows s s' :=
  ⟨by rw [h2]; exact List.prefix_refl _, by rw [h3]; exact List.prefix_refl _, by rw [h4]; exact List.prefix_refl _,
   by rw [h5]; exact List.prefix_refl _, fun sid sym h => ⟨sym, by rw [h1]; exact h, rfl, rfl, id⟩⟩

theorem syms_append_stable {syms new : List Symbol} : ∀ (sid : SymId) (sym : Symbol), syms[sid]? = some sym →
    ∃ sym' : Symbol, (syms ++ new)[sid]? = some sym' ∧ sym'.name = sym.name ∧ sym'.user = sym.user ∧
      (sym.ty.isLocation = true → sym'.ty.isLocation = true) := by
  intro sid sym h
  have : sid < syms.length := by
    have := (List.getElem?_eq_some_iff.mp h).1; exact this
  exact ⟨sym, by rw [List.getElem?_append_left this]; exact h, rfl, rfl, id⟩

theorem grows_addSymbol (s : BState) (f : FrameId) (n : String) (ty : STy) (u : Option Obj) : Grows s (s.addSymbol f n ty u).1 :=
  ⟨List.prefix_refl _, List.prefix_refl _, List.prefix_refl _, List.prefix_refl _, syms_append_stable⟩

theorem grows_addVariable (s : BState) (ty : Ty) (n : String) : Grows s (s.addVariable ty n).1 := by
  unfold BState.addVariable
  cases s.currentFun <;> exact ⟨List.prefix_append _ _, List.prefix_refl _, List.prefix_refl _, List.prefix_refl _, syms_append_stable⟩

theorem grows_addFunction (s : BState) (n : String) : Grows s (s.addFunction n).1 :=
  ⟨List.prefix_refl _, List.prefix_append _ _, List.prefix_refl _, List.prefix_refl _, syms_append_stable⟩

theorem grows_addLocation (s : BState) (t : Nat) (n : String) (a b : Bool) : Grows s (s.addLocation t n a b).1 := by
  unfold BState.addLocation
  split
  · exact Grows.refl _
  · exact ⟨List.prefix_refl _, List.prefix_refl _, List.prefix_append _ _, List.prefix_refl _, syms_append_stable⟩

theorem grows_addBranchpoint (s : BState) (t : Nat) (n : String) : Grows s (s.addBranchpoint t n).1 := by
  unfold BState.addBranchpoint
  split
  · exact Grows.refl _
  · exact ⟨List.prefix_refl _, List.prefix_refl _, List.prefix_refl _, List.prefix_append _ _, syms_append_stable⟩

theorem grows_addTemplate (s : BState) (n : String) (a b : Bool) : Grows s (s.addTemplate n a b).1 :=
  ⟨List.prefix_refl _, List.prefix_refl _, List.prefix_refl _, List.prefix_refl _, syms_append_stable⟩

theorem grows_addInstance (s : BState) (l : Bool) (n : String) (o : Inst) (ps : List SymId) (es : List Expr) : Grows s (s.addInstance l n o ps es) :=
  ⟨List.prefix_refl _, List.prefix_refl _, List.prefix_refl _, List.prefix_refl _, syms_append_stable⟩

theorem grows_addProcess (s : BState) (i : Inst) : Grows s (s.addProcess i) :=
  ⟨List.prefix_refl _, List.prefix_refl _, List.prefix_refl _, List.prefix_refl _, syms_append_stable⟩

theorem grows_setSymTy (s : BState) (sid : SymId) (ty : STy) (hty : ty.isLocation = true) : Grows s (s.setSymTy sid ty) := by
  refine ⟨List.prefix_refl _, List.prefix_refl _, List.prefix_refl _, List.prefix_refl _, ?_⟩
  intro sid' sym h
  simp only [BState.setSymTy, List.getElem?_modify, h]
  by_cases he : sid = sid' <;> simp [he, hty]

theorem grows_sandwich {s x y s' : BState} (h : Grows x y)
    (pre : x.syms = s.syms ∧ x.doc.vars = s.doc.vars ∧ x.doc.funs = s.doc.funs)
    (post : s'.syms = y.syms ∧ s'.doc.vars = y.doc.vars ∧ s'.doc.funs = y.doc.funs)
    (pre2 : x.doc.locs = s.doc.locs ∧ x.doc.bps = s.doc.bps := by exact ⟨rfl, rfl⟩)
    (post2 : s'.doc.locs = y.doc.locs ∧ s'.doc.bps = y.doc.bps := by exact ⟨rfl, rfl⟩) : Grows s s' :=
  Grows.trans (Grows.trans (Grows.of_eq pre.1 pre.2.1 pre.2.2 pre2.1 pre2.2) h) (Grows.of_eq post.1 post.2.1 post.2.2 post2.1 post2.2)

theorem grows_ite {c : Prop} [Decidable c] {s a b : BState} (ha : Grows s a) (hb : Grows s b) : Grows s (if c then a else b) := by
  split <;> assumption

theorem grows_addSelectSymbol (s : BState) (n : String) (f : Option FrameId) : Grows s (s.addSelectSymbol n f) := by
  unfold BState.addSelectSymbol
  simp only [BState.popType]
  refine grows_ite (Grows.of_eq rfl rfl rfl) ?_
  cases f with
  | some f =>
    refine Grows.trans (b := (if (s.popType.1.resolve n).isSome then s.popType.1.warning else s.popType.1)) ?_ (grows_addSymbol _ _ _ _ _)
    exact grows_ite (Grows.of_eq rfl rfl rfl) (Grows.of_eq rfl rfl rfl)
  | none => exact grows_ite (Grows.of_eq rfl rfl rfl) (Grows.of_eq rfl rfl rfl)

theorem grows_setEdge (s : BState) (f : Edge → Expr → Edge) : Grows s (s.setEdge f) := by
  unfold BState.setEdge
  split <;> exact Grows.of_eq rfl rfl rfl

theorem C16_decl_step (s : BState) (c : Call) : Grows s (step s c) := by
  have R : ∀ {a b : BState}, a.syms = b.syms ∧ a.doc.vars = b.doc.vars ∧ a.doc.funs = b.doc.funs → True := fun _ => trivial
  cases c
  case quantBegin n =>
    exact grows_sandwich (grows_addSymbol s.popType.1.pushNewFrame s.popType.1.pushNewFrame.top n (.var s.popType.2) none) ⟨rfl, rfl, rfl⟩ ⟨rfl, rfl, rfl⟩
  case dynQuantBegin n =>
    exact grows_sandwich (grows_addSymbol s.pushNewFrame s.pushNewFrame.top n .processVar none) ⟨rfl, rfl, rfl⟩ ⟨rfl, rfl, rfl⟩
  case typeName n =>
    simp only [step]
    cases s.resolveSym n with
    | none => exact Grows.of_eq rfl rfl rfl
    | some p => obtain ⟨sid, ⟨nm, ty, u⟩⟩ := p; cases ty <;> exact Grows.of_eq rfl rfl rfl
  case declTypedef n =>
    simp only [step, BState.popType]
    refine grows_ite (Grows.of_eq rfl rfl rfl) ?_
    exact grows_sandwich (grows_addSymbol s.popType.1 s.popType.1.top n (.typedef s.popType.2) none) ⟨rfl, rfl, rfl⟩ ⟨rfl, rfl, rfl⟩
  case declVar n i =>
    cases i
    · exact grows_sandwich (grows_addVariable s.popType.1 s.popType.2 n) ⟨rfl, rfl, rfl⟩ ⟨rfl, rfl, rfl⟩
    · exact grows_sandwich (grows_addVariable s.popFrag.popType.1 s.popFrag.popType.2 n) ⟨rfl, rfl, rfl⟩ ⟨rfl, rfl, rfl⟩
  case declParameter n =>
    exact grows_sandwich (grows_addSymbol s.popType.1 s.popType.1.params n (.var s.popType.2) none) ⟨rfl, rfl, rfl⟩ ⟨rfl, rfl, rfl⟩
  case declFuncBegin n =>
    refine grows_sandwich (grows_addFunction (({ s with currentFun := none } : BState).popType.1) n) ⟨rfl, rfl, rfl⟩ ?_ ⟨rfl, rfl⟩ ?_
    · simp only [step]
      refine ⟨?_, ?_, ?_⟩ <;> (simp only [BState.pushNewFrame, BState.newFrame, BState.pushFrame]; split <;> rfl)
    · simp only [step]
      refine ⟨?_, ?_⟩ <;> (simp only [BState.pushNewFrame, BState.newFrame, BState.pushFrame]; split <;> rfl)
  case declExternalFunc n =>
    refine grows_sandwich (grows_addFunction s.popType.1 n) ⟨rfl, rfl, rfl⟩ ?_ ⟨rfl, rfl⟩ ?_
    · simp only [step]
      refine ⟨?_, ?_, ?_⟩ <;> (simp only [BState.pushNewFrame, BState.newFrame, BState.pushFrame, BState.popFrame]; split <;> rfl)
    · simp only [step]
      refine ⟨?_, ?_⟩ <;> (simp only [BState.pushNewFrame, BState.newFrame, BState.pushFrame, BState.popFrame]; split <;> rfl)
  case declDynamicTemplate n =>
    simp only [step]
    refine grows_sandwich (grows_addTemplate (if ({ s with currentTemplate := none } : BState).topContains n then ({ s with currentTemplate := none } : BState).error else ({ s with currentTemplate := none } : BState)) n true true) ?_ ⟨rfl, rfl, rfl⟩ ?_ ⟨rfl, rfl⟩
    · refine ⟨?_, ?_, ?_⟩ <;> (split <;> rfl)
    · refine ⟨?_, ?_⟩ <;> (split <;> rfl)
  case iterationBegin n =>
    exact grows_sandwich (grows_addVariable s.popType.1.pushNewFrame s.popType.2 n) ⟨rfl, rfl, rfl⟩ ⟨rfl, rfl, rfl⟩
  case returnStatement a =>
    simp only [step]
    cases s.currentFun with
    | none => exact Grows.of_eq rfl rfl rfl
    | some f => cases a <;> exact Grows.of_eq rfl rfl rfl
  case procBegin n isTA =>
    simp only [step]
    cases s.findDynamicTemplate n with
    | some t => exact Grows.of_eq rfl rfl rfl
    | none =>
      refine grows_sandwich (grows_addTemplate (if s.topContains n then s.error else s) n isTA false) ?_ ⟨rfl, rfl, rfl⟩ ?_ ⟨rfl, rfl⟩
      · refine ⟨?_, ?_, ?_⟩ <;> (split <;> rfl)
      · refine ⟨?_, ?_⟩ <;> (split <;> rfl)
  case procLocation n a b =>
    simp only [step]
    cases hct : (if a = true then (if b = true then s.popFrag else s).popFrag else (if b = true then s.popFrag else s)).currentTemplate with
    | none => simp only [hct]; cases a <;> cases b <;> exact Grows.of_eq rfl rfl rfl
    | some t =>
      simp only [hct]
      refine grows_sandwich (grows_addLocation _ t n a b) ?_ ⟨rfl, rfl, rfl⟩ ?_ ⟨rfl, rfl⟩
      · cases a <;> cases b <;> exact ⟨rfl, rfl, rfl⟩
      · cases a <;> cases b <;> exact ⟨rfl, rfl⟩
  case procLocationCommit n =>
    simp only [step]
    cases s.resolveSym n with
    | none => exact Grows.of_eq rfl rfl rfl
    | some p =>
      obtain ⟨sid, ⟨nm, ty, u⟩⟩ := p
      cases ty <;> try exact Grows.of_eq rfl rfl rfl
      rename_i ur cm
      cases ur
      · exact grows_setSymTy _ _ _ rfl
      · exact Grows.of_eq rfl rfl rfl
  case procLocationUrgent n =>
    simp only [step]
    cases s.resolveSym n with
    | none => exact Grows.of_eq rfl rfl rfl
    | some p =>
      obtain ⟨sid, ⟨nm, ty, u⟩⟩ := p
      cases ty <;> try exact Grows.of_eq rfl rfl rfl
      rename_i ur cm
      cases cm
      · exact grows_setSymTy _ _ _ rfl
      · exact Grows.of_eq rfl rfl rfl
  case procLocationInit n =>
    simp only [step]
    cases s.resolveSym n with
    | none => exact Grows.of_eq rfl rfl rfl
    | some p =>
      obtain ⟨sid, ⟨nm, ty, u⟩⟩ := p
      cases ty <;> try exact Grows.of_eq rfl rfl rfl
      cases s.currentTemplate <;> exact Grows.of_eq rfl rfl rfl
  case procBranchpoint n =>
    simp only [step]
    cases s.currentTemplate with
    | none => exact Grows.refl _
    | some t => exact grows_addBranchpoint _ _ _
  case procEdgeBegin a b c =>
    simp only [step]
    cases s.resolveEndpoint a <;> cases s.resolveEndpoint b <;> cases s.currentTemplate <;> exact Grows.of_eq rfl rfl rfl
  case procSelect n =>
    simp only [step]
    cases s.currentEdge with
    | none => exact Grows.of_eq rfl rfl rfl
    | some p => exact grows_addSelectSymbol _ _ _
  case ganttSelect n => simp only [step]; exact grows_addSelectSymbol _ _ _
  case procGuard => simp only [step]; exact grows_setEdge _ _
  case procUpdate => simp only [step]; exact grows_setEdge _ _
  case procProb => simp only [step]; exact grows_setEdge _ _
  case procSync =>
    simp only [step]
    cases s.currentEdge with
    | none => exact Grows.of_eq rfl rfl rfl
    | some p => exact grows_sandwich (grows_setEdge s.fresh.1 _) ⟨rfl, rfl, rfl⟩ ⟨rfl, rfl, rfl⟩
  case instantiationBegin a b =>
    simp only [step]
    refine Grows.of_eq ?_ ?_ ?_ ?_ ?_ <;>
      (simp only [BState.newFrame, BState.pushFrame]; split <;> (try rfl) <;> (split <;> rfl))
  case instantiationEnd a b n =>
    simp only [step]
    have key : ∀ (lsc : Bool) (expected : Nat) (user : Option Obj), Grows s
        (if n < expected then s.popFrame.error.popFrag n
         else if n > expected then s.popFrame.error.popFrag n
         else match user.bind s.popFrame.doc.inst? with
           | some old => (s.popFrame.popFrag n).addInstance lsc a old (s.frameD s.top).syms
               ((List.range n).map (fun i => s.popFrame.fragments.getD (n - 1 - i) 0))
           | none => s.popFrame.popFrag n) := by
      intro lsc expected user
      refine grows_ite (Grows.of_eq rfl rfl rfl) (grows_ite (Grows.of_eq rfl rfl rfl) ?_)
      cases user.bind s.popFrame.doc.inst? with
      | none => exact Grows.of_eq rfl rfl rfl
      | some old => exact grows_sandwich (grows_addInstance (s.popFrame.popFrag n) lsc a old _ _) ⟨rfl, rfl, rfl⟩ ⟨rfl, rfl, rfl⟩
    cases s.popFrame.resolveSym b with
    | none => exact Grows.of_eq rfl rfl rfl
    | some p =>
      obtain ⟨sid, ⟨nm, ty, u⟩⟩ := p
      cases ty <;> first | exact key _ _ _ | exact Grows.of_eq rfl rfl rfl
  case process n =>
    simp only [step]
    split
    · split
      · exact grows_addProcess _ _
      · exact Grows.refl _
    · exact Grows.refl _
  all_goals exact Grows.of_eq rfl rfl rfl


end UtapModel.Builder
