#!/usr/bin/env python3
"""tools/keep_seed.py <PROP> <k> <srcdir> <check_result text> [<owning check>]  -- copy a confirmed seeded change into seeded/<PROP>-<k>/"""
import json, os, shutil, sys
prop, k, src, result = sys.argv[1:5]
check = sys.argv[5] if len(sys.argv) > 5 else None      # the check that owns the changed code, when it is not the property's own
dst = os.path.join(os.path.dirname(os.path.dirname(os.path.abspath(__file__))), "seeded", "%s-%s" % (prop, k))
os.makedirs(dst, exist_ok=True)
for f in os.listdir(src):
    p = os.path.join(src, f)
    if os.path.isfile(p) and os.path.getsize(p) < 400000 and not f.endswith((".o", ".log", ".out")) and f not in ("demo",) and os.access(p, os.R_OK):
        if os.access(p, os.X_OK) and not f.endswith((".sh", ".py")):
            continue
        shutil.copy(p, os.path.join(dst, f))
m = json.load(open(os.path.join(dst, "meta.json")))
m["confirmed_by_integrator"] = {
    "how": "tools/mt.sh: patch applied in a scratch worktree of /repo HEAD, library + tests rebuilt with cmake/ninja, ctest 6/6 passed, "
           "demo exit non-zero with the change and 0 without; ./check run in an isolated copy of /verif against the patched worktree",
    "check_result": result}
if check:
    m["confirmed_by_integrator"]["check"] = check
json.dump(m, open(os.path.join(dst, "meta.json"), "w"), indent=1)
print(dst, sorted(os.listdir(dst)))
