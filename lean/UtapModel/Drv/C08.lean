/- Driver for C08: replays the callback traces logged by harness/c08.cpp (TraceBuilder over the real DocumentBuilder)
   through the Lean builder model `step` and prints, per case,
     M ...   a call after which the model's stack depths differ from the observed ones
     U name  a callback the model has no clause for (its expression-stack effect is then taken from the trace)
     I ok|<clause>   the executable form of the C08 invariant evaluated on the model's final state
     E n     number of diagnostics the model recorded
     D ...   the structural dump of the model's document (compared with the dump of the real Document)
   Input = the harness output itself (BEGIN / C / END lines; everything else is ignored). -/
import UtapModel.Model.BuilderTrace
import UtapModel.Model.BuilderInv
open UtapModel.Builder

structure Case where
  s : BState := BState.init
  idx : Nat := 0
  mism : List String := []
  unmod : List String := []
  prevF : Nat := 0
  unsafeAt : Option String := none
  wantBinds : Bool := false
  calls : List Call := []

def fieldVal (toks : List String) (key : String) : Nat :=
  match toks.find? (fun t => t.startsWith key) with
  | some t => ((t.drop key.length).toString.toNat?).getD 0
  | none => 0

def handleCall (c : Case) (line : String) : Case :=
  let toks := (line.trimAscii.toString.splitOn " ").filter (· ≠ "")
  match toks with
  | "C" :: depth :: name :: rest =>
    if depth ≠ "0" then c else
    let args := rest.takeWhile (· ≠ "|")
    let tail := rest.dropWhile (· ≠ "|")
    let obsF := fieldVal tail "F="
    let obsR := fieldVal tail "R="
    let (call, unm) : Call × Bool :=
      match Call.ofTrace name args with
      | some cl => (cl, false)
      | none => (if obsF ≥ c.prevF then Call.frag 0 (obsF - c.prevF) else Call.frag (c.prevF - obsF) 0, true)
    let safe := safeCall c.s call
    let s' := step c.s call
    let bad := s'.frames.length ≠ obsR ∨ s'.fragments.length ≠ obsF
    { c with s := s', idx := c.idx + 1, prevF := obsF, calls := call :: c.calls,
             mism := if bad ∧ c.mism.length < 5 then
                       c.mism ++ [s!"M {c.idx} {name} pred R={s'.frames.length} F={s'.fragments.length} obs R={obsR} F={obsF}"]
                     else c.mism,
             unmod := if unm ∧ !c.unmod.contains name then c.unmod ++ [name] else c.unmod,
             unsafeAt := if !safe ∧ c.unsafeAt.isNone then some s!"{c.idx}:{name}" else c.unsafeAt }
  | _ => c

partial def loop (h : IO.FS.Stream) (out : IO.FS.Stream) (cur : Option Case) : IO Unit := do
  let line ← h.getLine
  if line.isEmpty then return ()
  if line.startsWith "BEGIN " then
    out.putStr line
    loop h out (some { wantBinds := (line.trimAscii.toString.splitOn " ").contains "binds" })
  else if line.startsWith "END " then
    match cur with
    | some c =>
      for m in c.mism do out.putStrLn m
      for u in c.unmod do out.putStrLn s!"U {u}"
      out.putStrLn s!"I {invReport c.s}"
      out.putStrLn s!"S {match c.unsafeAt with | some w => w | none => "ok"}"
      out.putStrLn s!"E {c.s.diags}"
      out.putStrLn s!"P {if initShape false c.calls.reverse then "ok" else "fail"}"
      for d in c.s.dump do out.putStrLn s!"D {d}"
      if c.wantBinds then
        for b in c.s.binds.reverse do
          out.putStrLn s!"B {quoteTok b.1} {match b.2 with | some sid => toString sid | none => "none"}"
    | none => pure ()
    out.putStr line
    loop h out none
  else
    match cur with
    | some c => loop h out (some (if line.startsWith "C " then handleCall c line else c))
    | none => loop h out none

def main : IO Unit := do
  loop (← IO.getStdin) (← IO.getStdout) none
