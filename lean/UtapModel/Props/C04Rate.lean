/-
C04 / C16 (invariants) — the invariant the type checker stores for a location mirrors the invariant of the source.

`TypeChecker::visitLocation` replaces every well-typed invariant by the result of `RateDecomposer::decompose` (Model/RateDecomp.lean, whose
open points `RateDecompCfg.cfg` are read from src/typechecker.cpp on every run).  For every invariant — any nesting of conjunctions,
rates and quantifiers — the stored invariant is the constant 1 followed by exactly the conjuncts of the source that are not cost rates:
each once, in source order, a quantified conjunct whole, nothing from inside a quantifier on its own; the cost rate is the last one of
the source, and the counters and flags count what the source contains.
-/
import UtapModel.Lemmas.RateDecomp
import UtapModel.Gen.RateDecompCfg

namespace UtapModel.C04Rate
open UtapModel.RateDecomp

/-- **tie T**: the decomposer of the current source is the one the theorems below are about -/
theorem C04_rate_cfg : RateDecompCfg.cfg = pinned := by decide

/-- the stored decomposition is used for every well-typed invariant (whole-text match of `visitLocation` in the translator) -/
theorem C04_rate_stored_unconditionally : RateDecompCfg.visitLocationStoresDecomposition = true := by decide

/-- **the stored invariant is `1` and then the conjuncts of the source that are not cost rates, each once, in order** -/
theorem C04_invariant_conjuncts (e : WR) :
    (stored RateDecompCfg.cfg e).conj = Conj.one :: ((spine e).filter (fun l => !isCost l)).map (fun l => Conj.sub (name l)) := by
  rw [C04_rate_cfg, stored_pinned]
  rfl

/-- nothing is added or duplicated: the number of stored conjuncts is 1 + the number of non-cost conjuncts of the source -/
theorem C04_invariant_count (e : WR) :
    (stored RateDecompCfg.cfg e).conj.length = 1 + ((spine e).filter (fun l => !isCost l)).length := by
  rw [C04_invariant_conjuncts]; simp [Nat.add_comm]

/-- a quantified conjunct is stored whole and nothing from inside it separately: what is stored depends only on the conjunction spine -/
theorem C04_invariant_quantifier_opaque (b b' : WR) (n : Nat) (l r : WR) :
    (stored RateDecompCfg.cfg (.and l (.and (.all b n) r))).conj = (stored RateDecompCfg.cfg (.and l (.and (.all b' n) r))).conj := by
  simp [C04_invariant_conjuncts, spine, isCost, name]

/-- the cost rate stored with the location is the last cost rate of the source (a quantified body included), and they are all counted -/
theorem C04_cost_rate (e : WR) :
    (stored RateDecompCfg.cfg e).cost = lastCost (costs e) none ∧ (stored RateDecompCfg.cfg e).costCount = (costs e).length := by
  rw [C04_rate_cfg, stored_pinned]
  exact ⟨rfl, rfl⟩

/-- the stop-watch and strict-invariant flags say what the source contains (a quantified body included) -/
theorem C04_rate_flags (e : WR) :
    (stored RateDecompCfg.cfg e).clockRates = hasClockRate e ∧ (stored RateDecompCfg.cfg e).strict = hasStrict e := by
  rw [C04_rate_cfg, stored_pinned]
  exact ⟨rfl, rfl⟩

/-- the decomposition of a conjunction is the decomposition of its operands, one after the other (order of the source) -/
theorem C04_invariant_and (a b : WR) :
    (stored RateDecompCfg.cfg (.and a b)).conj = (stored RateDecompCfg.cfg a).conj ++ ((stored RateDecompCfg.cfg b).conj.drop 1) := by
  simp [C04_invariant_conjuncts, spine, List.filter_append]

/-! ### non-vacuity and necessity -/

/-- `y <= 5 && forall (i) (zs[i]' == 0 && forall (j) xs[i][j]' == 0) && cost' == 2 && y' == 1` -/
private def ex : WR :=
  .and (.and (.and (.inv false 1) (.all (.and (.rate false 3) (.all (.rate false 5) 4)) 2)) (.rate true 6)) (.rate false 7)

example : (stored RateDecompCfg.cfg ex).conj = [.one, .sub 1, .sub 2, .sub 7] := by decide
example : (stored RateDecompCfg.cfg ex).cost = some 6 := by decide

/-- the guard of the quantified case is needed: without it (the decomposer as it was before the repair 1643a94) the inner quantifier
    of a nested one is stored a second time, outside its binder -/
theorem C04_nested_quantifier_witness :
    (stored { pinned with allGuarded := false } ex).conj = [.one, .sub 1, .sub 4, .sub 2, .sub 7] := by decide

/-- the quantified body is entered with `inforall = true`: otherwise its rates would be stored on their own -/
theorem C04_forall_body_witness :
    (stored { pinned with allBodyInForall := false } ex).conj = [.one, .sub 1, .sub 3, .sub 5, .sub 4, .sub 2, .sub 7] := by decide

end UtapModel.C04Rate
