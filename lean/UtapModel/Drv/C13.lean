/- drv_c13: line-protocol driver of the dependency / compile-time-computability model (property C13); see Drv/C11Lib.lean. -/
import UtapModel.Drv.C11Lib
def main : IO Unit := UtapModel.EffectDrv.driverMain
