"""C07 -- identifiers bind to the innermost preceding declaration in scope (DESIGN.md section 4, C07).

 1 prove       UtapModel.Props.C07: the frame-store machine (symbol heap, parent links, last-index lookup, frame stack,
               the very `resolveIn` M-BUILD uses) computes the declarative binding (`specRun`) on every well-nested scope
               script; characterisation of that binding (innermost, latest preceding, unknown iff no open declaration);
               the M-BUILD callbacks perform the machine's operations
 2 correspond  generated models in which the names a,b,c are declared at many levels (globals, function parameters,
               nested blocks, iteration / quantifier / select binders, template parameters and locals, instantiation
               parameters) with pairwise distinguishable types int[0,K] (K unique per declaration), used before / after
               each declaration, inside / outside each scope, in labels with and without select binders.
               (a) script level: the generator's scope script -> drv_c07 (spec = impl) -> expected declaration per use;
                   the real library's binding of every use (TraceBuilder: symbol type of the IDENTIFIER node) must agree;
               (b) callback level: the real callback trace replayed through M-BUILD (drv_c08): stack depths after every
                   call, and the model's symbol per identifier must correspond one-to-one to the library's;
               (c) queries: unqualified names and P.x against the built document (harness/c07.cpp); for P.x / P.f() also the
                   declaration the member index designates in the frame of P's template (the name must be x whatever stands
                   before x there: local type names, parameters), and the verdict on a call P.f() must be the one f's own body
                   earns (a function that writes is no property; one that only reads is);
               (d) call sequences: the built document is changed through its public interface (Document::remove_process,
                   frame_t::remove on the global frame) and names are resolved again afterwards -- the global frame as a scope
                   script with `X:name` events -> drv_c07 -> expected symbol per name; every name but the removed one keeps its
                   declaration, the removed one falls back to the declaration it was hiding.
               Rejected declarations that carry a parameter list (`dynamic W(double a);`, a second function of the same name,
               an instantiation of something that is no template) are part of the generated models: their parameters are a
               scope that closes with the declaration, whatever the builder does with the declaration itself.
"""
import base64
import json
import os
import re
import sys
from xml.sax.saxutils import escape

from vlib import core

sys.path.insert(0, os.path.join(core.VERIF, "translate"))
sys.path.insert(0, os.path.join(core.VERIF, "checks"))
import c08 as C08  # noqa: E402
import c16_grammar as GR  # noqa: E402
import typesubst  # noqa: E402

MODULE = "UtapModel.Props.C07"
SMODULE = "UtapModel.Props.C07Subst"       # substitution of instantiation arguments into the type of P.x (Model/TypeSubst.lean)
GEN_TS = os.path.join(core.LEAN_DIR, "UtapModel", "Gen", "TypeSubstCfg.lean")
POOL = ["a", "b", "c"]
TY = "ty"                 # declared as a *typedef* at global level; inner scopes may redeclare it as a variable / binder (the lexer's
NAMES = POOL + [TY]       # is_type feedback must follow the same innermost-first rule as expression identifiers)


class Gen:
    """builds model text and its scope script side by side"""

    def __init__(self, r, clean=False):
        self.r = r
        self.clean = clean    # accepted-model mode: every name declared globally first, no duplicates per scope, no initialisers
        self.ev = []          # script tokens
        self.ks = []          # K of the n-th declaration
        self.k = 10
        self.open = [set()]   # names declared per open scope (only used to bias use sites)
        self.uses = 0
        self.decls = []       # (name, K, depth) of every declaration, in order
        self.tyvar = [False]  # per open scope: TY is declared as a variable / binder here

    def newk(self):
        self.k += 1
        return self.k

    def declare(self, name):
        k = self.newk()
        self.ev.append("D:" + name)
        self.ks.append(k)
        self.open[-1].add(name)
        if name == TY and len(self.open) > 1:
            self.tyvar[-1] = True
        self.decls.append((name, k, len(self.open)))
        return k

    def enter(self, binders):
        ks = []
        for _ in binders:
            k = self.newk()
            ks.append(k)
            self.ks.append(k)
        self.ev.append("E:" + ",".join(binders))
        self.open.append(set(binders))
        self.tyvar.append(TY in binders)
        for bn, k in zip(binders, ks):
            self.decls.append((bn, k, len(self.open)))
        return ks

    def leave(self):
        self.ev.append("L")
        self.open.pop()
        self.tyvar.pop()

    def binder(self):
        """name of a quantifier / iteration / select binder or parameter"""
        return TY if self.r.random() < 0.12 else self.r.choice(POOL)

    def use(self):
        n = self.r.choice(POOL)
        if any(self.tyvar) and self.r.random() < 0.3:
            n = TY            # only where the innermost declaration of TY is a variable (a use of the typedef would be a type error)
        self.ev.append("U:" + n)
        self.uses += 1
        return n

    def expr(self):
        r = self.r
        c = r.random()
        if c < 0.45:
            return self.use()
        if c < 0.7:
            return "%s + %s" % (self.use(), self.use())
        if c < 0.8:
            return "%s + %d" % (self.use(), r.randint(0, 3))
        if c < 0.9:
            return str(r.randint(0, 3))
        if c >= 0.95:
            # an unparenthesised body: it extends as far to the right as the expression goes (quantifiers and sum bind weakest), so every
            # operand after the binder -- including those right of a comparison or a logical operator -- is in the binder's scope
            b = self.binder()
            kw = r.choice(["forall", "exists", "sum"])
            ks = self.enter([b])
            if kw == "sum":
                body = "%s + %s == %s" % (self.use(), self.use(), self.use())
            else:
                body = "%s + %s >= 0 && %s > %s" % (self.use(), self.use(), self.use(), self.use())
            self.leave()
            return "%s (%s : int[0,%d]) %s" % (kw, b, ks[0], body)
        b = self.binder()
        # quantifier binder: a scope with one declaration
        ks = None
        pre = "(%s (%s : int[0,%%d]) (" % (r.choice(["forall", "exists"]), b)
        ks = self.enter([b])
        body = "%s + %s >= 0" % (self.use(), self.use())
        self.leave()
        return "(" + pre % ks[0] + body + ")) ? 1 : 0)"

    def decl(self, allow_init=True):
        r = self.r
        n = r.choice(POOL)
        if len(self.open) > 1 and r.random() < 0.12:
            n = TY
        if self.clean:
            free = [x for x in POOL if x not in self.open[-1]]
            if not free:
                return ""
            if n != TY or TY in self.open[-1]:
                n = r.choice(free)
        init = ""
        if allow_init and not self.clean and r.random() < 0.4:
            init = " = " + self.expr()          # the initialiser is parsed before the name is declared
        k = self.declare(n)
        return "int[0,%d] %s%s;" % (k, n, init)

    def body(self, depth):
        """block content: local declarations first (the grammar wants them before the statements), then statements"""
        r = self.r
        items = [self.decl() for _ in range(r.choice([0, 0, 1, 2]))]
        items += [self.stmt(depth) for _ in range(r.randint(1, 3))]
        return " ".join(items)

    def stmt(self, depth):
        r = self.r
        c = r.random()
        if c < 0.5 or depth > 2:
            return "gz = %s;" % self.expr()
        if c < 0.75:
            self.enter([])
            body = self.body(depth + 1)
            self.leave()
            return "{ %s }" % body
        x = self.binder()
        ks = self.enter([x])
        if r.random() < 0.3:
            # an iteration as the brace-less body of an iteration: the inner body sees both iterators
            y = self.binder()
            ks2 = self.enter([y])
            body = "for (%s : int[0,%d]) gz = %s;" % (y, ks2[0], self.expr())
            self.leave()
        elif r.random() < 0.5:
            body = "gz = %s;" % self.expr()
        else:
            self.enter([])
            body = "{ %s }" % self.body(depth + 2)
            self.leave()
        self.leave()
        return "for (%s : int[0,%d]) %s" % (x, ks[0], body)

    def function(self, name):
        r = self.r
        ps = []
        for _ in range(r.choice([0, 1, 1, 2])):
            pn = r.choice(POOL)      # the grammar wants a NonTypeId here: a parameter cannot reuse a type name
            if pn not in ps or not self.clean:
                ps.append(pn)
        ks = self.enter(ps)
        body = self.body(0)
        self.leave()
        return "void %s(%s) { %s }" % (name, ", ".join("int[0,%d] %s" % (k, p) for k, p in zip(ks, ps)), body)

    def rejected(self, tag):
        """a declaration with a parameter list that the builder diagnoses (parameter of a type no dynamic template may have, name already
        taken): the parameters are in scope of nothing -- least of all of the NEXT declaration that has parameters of its own"""
        r = self.r
        ps = []
        for _ in range(r.choice([1, 1, 2])):
            pn = r.choice(POOL)
            if pn not in ps:
                ps.append(pn)
        ks = self.enter(ps)
        self.leave()
        bad = r.randrange(len(ps))
        forms = ["double %s", "clock %s", "chan %s", "int[0,%d] &%s"]
        txt = []
        for j, (k, pn) in enumerate(zip(ks, ps)):
            f = r.choice(forms) if j == bad else "int[0,%d] %s"
            txt.append(f % ((k, pn) if "%d" in f else pn))
        return "dynamic dw%s(%s);" % (tag, ", ".join(txt))

    def block_decls(self, prefix, n, funs=True):
        out = []
        for i in range(n):
            c = self.r.random()
            if prefix == "g" and not self.clean and self.r.random() < 0.2:
                out.append(self.rejected("%s%d" % (prefix, i)))
                if self.r.random() < 0.5:
                    continue      # the very next declaration is the one after it in the text; else one of the kinds below follows directly
            if prefix == "g" and not self.clean and funs and c >= 0.75 and self.r.random() < 0.25:
                # the same function name twice: the second definition is reported, its parameters and body are a scope all the same
                out.append(self.function("fn%s%d" % (prefix, i)))
            if c < 0.55:
                out.append(self.decl())
            elif c < 0.75 and not self.clean:
                out.append("int gy%s%d = %s;" % (prefix, i, self.expr()))
            elif funs:
                out.append(self.function("fn%s%d" % (prefix, i)))
            else:
                out.append(self.decl())
        return out


def render_xml(m):
    o = ['<?xml version="1.0" encoding="utf-8"?>', "<nta>", "<declaration>%s</declaration>" % escape("\n".join(m["globals"]))]
    for t in m["templates"]:
        o.append("<template>")
        o.append("<name>%s</name>" % t["name"])
        if t["params"]:
            o.append("<parameter>%s</parameter>" % escape(", ".join(t["params"])))
        if t["decls"]:
            o.append("<declaration>%s</declaration>" % escape("\n".join(t["decls"])))
        for l in t["locs"]:
            o.append('<location id="%s"><name>%s</name>%s</location>' % (
                l["id"], l["name"], '<label kind="invariant">%s</label>' % escape(l["inv"]) if l["inv"] else ""))
        o.append('<init ref="%s"/>' % t["locs"][0]["id"])
        for e in t["edges"]:
            o.append('<transition><source ref="%s"/><target ref="%s"/>' % (e["src"], e["dst"]))
            if e["select"]:
                o.append('<label kind="select">%s</label>' % escape(", ".join("%s : int[0,%d]" % s for s in e["select"])))
            if e["guard"]:
                o.append('<label kind="guard">%s</label>' % escape(e["guard"]))
            if e["assign"]:
                o.append('<label kind="assignment">%s</label>' % escape(e["assign"]))
            o.append("</transition>")
        o.append("</template>")
    o.append("<system>%s\nsystem %s;</system>" % (escape("\n".join(m["system"])), ", ".join(m["processes"])))
    o.append("</nta>")
    return "\n".join(o) + "\n"


def render_xta(m):
    o = list(m["globals"])
    for t in m["templates"]:
        o.append("process %s(%s) {" % (t["name"], ", ".join(t["params"])))
        o += t["decls"]
        o.append("state %s;" % ", ".join(l["name"] + (" {%s}" % l["inv"] if l["inv"] else "") for l in t["locs"]))
        o.append("init %s;" % t["locs"][0]["name"])
        names = {l["id"]: l["name"] for l in t["locs"]}
        tr = []
        for e in t["edges"]:
            body = ""
            if e["select"]:
                body += "select %s; " % ", ".join("%s : int[0,%d]" % s for s in e["select"])
            if e["guard"]:
                body += "guard %s; " % e["guard"]
            if e["assign"]:
                body += "assign %s; " % e["assign"]
            tr.append("%s -> %s { %s}" % (names[e["src"]], e.get("dst_name") or names[e["dst"]], body))
        o.append("trans " + ",\n ".join(tr) + ";")
        o.append("}")
    o += m["system"]
    o.append("system %s;" % ", ".join(m["processes"]))
    return "\n".join(o) + "\n"


def gen_case(r):
    """model + script; partial instances are generated inline so that every use is recorded in text order"""
    clean = r.random() < 0.4
    g = Gen(r, clean)
    m = {"globals": ["int gz;"], "templates": [], "system": [], "processes": [], "queries": [], "clean": clean, "chains": []}
    m["globals"].append("typedef int[0,%d] %s;" % (g.declare(TY), TY))      # a type name that inner scopes may shadow with a variable
    if clean:
        m["globals"] += [g.decl() for _ in POOL]
    m["globals"] += g.block_decls("g", r.randint(1, 5))
    for ti in range(r.randint(1, 2)):
        ps = []
        for _ in range(r.choice([0, 1, 1, 2])):
            p = r.choice(POOL)
            if p not in ps:
                ps.append(p)
        ks = g.enter(ps)
        t = {"name": "T%d" % ti, "params": ["const int[0,%d] %s" % (k, p) for k, p in zip(ks, ps)], "pnames": ps, "pks": ks, "decls": [], "locs": [],
             "edges": [], "tdecl": {}}
        for p, k in zip(ps, ks):
            t["tdecl"][p] = [k]
        nd = len(g.decls)
        t["decls"] = g.block_decls("t%d" % ti, r.randint(0, 4), funs=r.random() < 0.5)
        for nm, k, dep in g.decls[nd:]:
            if dep == len(g.open):
                t["tdecl"].setdefault(nm, []).append(k)
        # local type names anywhere among the template's declarations: P.x counts the declarations of the template, type names included
        for j in range(r.choice([0, 0, 1, 2])):
            t["decls"].insert(r.randint(0, len(t["decls"])), "typedef int[0,%d] lt%d_%d;" % (r.randint(1, 9), ti, j))
        if ps:
            t["decls"].append("int[0,%s] yd%d;" % (ps[0], ti))
            g.ev.append("U:" + ps[0])
            g.uses += 1
            if len(ps) > 1:
                t["decls"].append("int[0,%s] ye%d;" % (ps[-1], ti))
                g.ev.append("U:" + ps[-1])
                g.uses += 1
        for li in range(r.randint(1, 3)):
            inv = "%s >= 0" % g.expr() if r.random() < 0.5 else None
            t["locs"].append({"id": "id%d_%d" % (ti, li), "name": "L%d" % li, "inv": inv})
        t["locs"].append({"id": "idu%d" % ti, "name": "U%d" % ti, "inv": None})      # a name no other template has
        for ei in range(r.randint(1, 4)):
            e = {"src": r.choice(t["locs"])["id"], "dst": r.choice(t["locs"])["id"], "select": [], "guard": None, "assign": None}
            g.enter([])
            # error path: an edge whose target is a location of an *earlier template* (the id resolves in the reader's table, the
            # name does not resolve in this template): proc_edge_begin fails, its dummy frame must still be popped by proc_edge_end
            bad = (not clean) and ti > 0 and r.random() < 0.25
            if bad:
                e["dst"], e["dst_name"] = "idu%d" % (ti - 1), "U%d" % (ti - 1)
            for _ in range(0 if bad else r.choice([0, 0, 1, 2])):
                n = g.binder()
                if n in g.open[-1]:
                    continue
                e["select"].append((n, g.declare(n)))
            if r.random() < 0.8:
                e["guard"] = "%s >= 0" % g.expr()
            if r.random() < 0.7:
                e["assign"] = "gz = %s" % g.expr()
            g.leave()
            t["edges"].append(e)
        g.leave()
        m["templates"].append(t)
    for i in range(r.randint(0, 2)):
        m["system"].append(g.decl())
    for ti, t in enumerate(m["templates"]):
        n = len(t["pnames"])
        if not clean and r.random() < 0.25:
            # rejected declarations right before an instantiation (which takes its parameters from the same place as a function does)
            if r.random() < 0.5:
                m["system"].append(g.rejected("s%d" % ti))
            else:
                b = r.choice(POOL)
                ks = g.enter([b])
                arg = g.use()
                g.leave()
                m["system"].append("X%d(const int[0,%d] %s) = gz(%s);" % (ti, ks[0], b, arg))      # gz is a variable, not a template
        if r.random() < 0.65 or n == 0:
            g.enter([])
            args = [str(r.randint(0, 3)) if (clean or r.random() < 0.6) else g.use() for _ in range(n)]
            g.leave()
            m["system"].append("P%d = %s(%s);" % (ti, t["name"], ", ".join(args)))
            m["processes"].append("P%d" % ti)
            t["inst"] = ("P%d" % ti, args)
        else:
            b = r.choice(POOL)
            ks = g.enter([b])
            if clean:
                g.ev.append("U:" + b)
                g.uses += 1
                args = [b] + [str(r.randint(0, 3)) for _ in range(n - 1)]
            else:
                args = [g.use() for _ in range(n)]
            g.leave()
            m["system"].append("Q%d(const int[0,%d] %s) = %s(%s);" % (ti, ks[0], b, t["name"], ", ".join(args)))
            if clean and r.random() < 0.7:
                # a second instantiation step: R = Q(v).  Members of R whose type mentions a template parameter must have the argument
                # of *whichever step bound it* substituted (yd: bound through b in this step; ye: bound to a constant in the first step)
                v = r.randint(0, min(3, ks[0]))
                m["system"].append("R%d = Q%d(%d);" % (ti, ti, v))
                m["processes"].append("R%d" % ti)
                m["chains"].append(("R%d" % ti, ti, v, int(args[-1]) if n > 1 else None))
            else:
                m["processes"].append("Q%d" % ti)
    return m, g


def member_case(r):
    """one template whose declarations -- local type names, variables (some of a local type), functions that only read, functions that
    write -- stand in a random order, reached from queries through its processes: P.x / P.f() must designate the declaration of that very
    name whatever stands before it in the template (the index of a process member counts ALL declarations of the template, type names and
    parameters included), and the call P.f() must get the verdict f's own body earns.  Returns (xml, queries, expectations)."""
    k = [20]

    def nk():
        k[0] += 1
        return k[0]
    npar = r.choice([0, 0, 1, 2])
    params = ["const int[0,9] p%d" % j for j in range(npar)]
    decls, members, tds, vars_ = [], [], [], []
    for j in range(r.randint(3, 9)):
        c = r.random()
        # a type name is the likelier the fewer there are: the members after the FIRST one are the interesting ones
        if c < (0.45 if not tds else 0.2):
            kk = nk()
            if r.random() < 0.3:
                decls.append("typedef struct { int[0,%d] f; } td%d;" % (kk, j))
            else:
                decls.append("typedef int[0,%d] td%d;" % (kk, j))
                tds.append(("td%d" % j, kk))
        elif c < 0.6 or not vars_:
            if tds and r.random() < 0.5:
                tn, kk = r.choice(tds)
                decls.append("%s v%d;" % (tn, j))
            else:
                kk = nk()
                decls.append("int[0,%d] v%d;" % (kk, j))
            vars_.append("v%d" % j)
            members.append(("v%d" % j, kk, "var"))
        elif c < 0.8:
            kk = nk()
            decls.append("int[0,%d] r%d() { return %s > 0 ? 1 : 0; }" % (kk, j, r.choice(vars_)))
            members.append(("r%d" % j, kk, "reads"))
        else:
            kk = nk()
            decls.append("int[0,%d] w%d() { %s = 0; return 0; }" % (kk, j, r.choice(vars_ + ["gz"])))
            members.append(("w%d" % j, kk, "writes"))
    nloc = r.randint(1, 3)
    procs = []
    for pi in range(r.randint(1, 3)):
        procs.append(("P%d" % pi, [r.randint(0, 9) for _ in range(npar)]))
    xml = ('<?xml version="1.0" encoding="utf-8"?><nta><declaration>int gz;</declaration><template><name>T</name>%s<declaration>%s</declaration>%s'
           '<init ref="id0"/></template><system>%s\nsystem %s;</system></nta>'
           % ("<parameter>%s</parameter>" % escape(", ".join(params)) if params else "", escape("\n".join(decls)),
              "".join('<location id="id%d"><name>L%d</name></location>' % (j, j) for j in range(nloc)),
              escape("\n".join("%s = T(%s);" % (pn, ", ".join(map(str, a))) for pn, a in procs)), ", ".join(pn for pn, _ in procs)))
    qs, exp = [], []
    for pn, _ in procs:
        for nm, kk, kind in members:
            qs.append("TC E<> %s.%s%s >= 0" % (pn, nm, "" if kind == "var" else "()"))
            exp.append(("MEMBER", pn, nm, kk, kind))
        for j in range(nloc):
            qs.append("TC E<> %s.L%d" % (pn, j))
            exp.append(("MEMBER", pn, "L%d" % j, None, "location"))
    return xml, qs, exp


KRE = re.compile(r"\(CONSTANT_int_0\)_\(CONSTANT_int_(\d+)\)")


def lib_bindings(trace_lines):
    """[(name, K or None)] for every expr_identifier on a pool name, in trace order"""
    out = []
    for l in trace_lines:
        if not l.startswith("C 0 expr_identifier "):
            continue
        toks = l.split()
        name = toks[3].strip('"')
        if name not in NAMES:
            continue
        f = dict(x.split("=", 1) for x in toks[toks.index("|") + 1:] if "=" in x)
        if f.get("t") == "1" or "BT" not in f:
            out.append((name, None, None))
        else:
            km = KRE.search(f["BT"])
            out.append((name, int(km.group(1)) if km else -1, f.get("B")))
    return out


def run(ctx):
    cov = ctx.coverage
    r = ctx.rng
    # the grammar table used by C07_grammar_frame_balanced is regenerated from the current parser.y (tie T)
    try:
        prods = GR.parse(core.REPO)
        core.write_if_changed(os.path.join(core.LEAN_DIR, "UtapModel", "Gen", "C16Grammar.lean"), GR.lean_text(prods))
        cov["productions_translated"] = len(prods)
    except GR.TranslateError as ex:
        # go on with the table of the last good run: the correspondence / oracle below looks for the failing input
        ctx.proof_broken("translate/c16_grammar.py", str(ex), "correspondence and oracle of this run found no failing input")
    try:
        ts_text, ts_cfg = typesubst.translate(core.REPO)
        core.write_if_changed(GEN_TS, ts_text)
        cov["type_substitution_translated"] = ts_cfg
    except typesubst.TranslateError as ex:
        ctx.proof_broken("translate/typesubst.py", str(ex), "process-member queries of this run (chains of instantiation steps, named member types)")
    ok, log = ctx.prove([MODULE, SMODULE], ["drv_c07", "drv_c08"])
    if not ok:
        ctx.log("proof broken:", core.failing_theorems(log) or log[-1500:])
    exe08, _ = C08.build_harness("asan")
    b = core.build_repo("asan")
    exe07 = core.build_harness(b, "c07", ["c07.cpp"])
    n = 150 if not ctx.thorough else 2500
    models = [gen_case(r) for _ in range(n)]
    cases, scripts = [], []
    for i, (m, g) in enumerate(models):
        cases.append(("x%d" % i, "xml", 1, "t", render_xml(m)))
        cases.append(("a%d" % i, "xta", 1, "t", render_xta(m)))
        scripts.append(" ".join(g.ev))
    ctx.log("generated %d models (%d uses, %d declarations)" % (n, sum(g.uses for _, g in models), sum(len(g.ks) for _, g in models)))
    res, crashes = C08.run_batch(exe08, cases)
    for rc, err, dead in crashes:
        ctx.finding("crash:" + C08.crash_site(err, rc), "c08 harness died on a C07 model rc=%s" % rc,
                    {"stderr": err, "format": dead[1] if dead else None,
                     "input_b64": base64.b64encode(dead[4].encode()).decode() if dead else None})
    # (a) script level -------------------------------------------------------------------------------------------------------
    rc, out, err, _ = core.run_exe(core.lean_exe("drv_c07"), [], stdin_text="\n".join(scripts) + "\n") if os.path.exists(core.lean_exe("drv_c07")) else (1, "", "no driver", 0)
    drv = out.split("\n")
    dis, n_uses, n_unknown, depth_hist, kinds = [], 0, 0, {}, {"shadowing": 0, "unknown": 0, "global": 0}
    spec_impl_diff = 0
    for i, (m, g) in enumerate(models):
        if i >= len(drv) or not drv[i].startswith("WN "):
            dis.append((i, "xml", "driver: %r" % (drv[i] if i < len(drv) else None)))
            continue
        f = dict(x.split("=", 1) for x in drv[i].split()[1:])
        spec = [None if x == "none" else int(x) for x in f["spec"].split(",")] if f["spec"] else []
        impl = [None if x == "none" else int(x) for x in f["impl"].split(",")] if f["impl"] else []
        if spec != impl:
            spec_impl_diff += 1
        expect = [None if o is None else g.ks[o] for o in spec]
        names = [e[2:] for e in g.ev if e.startswith("U:")]
        for fmt, cid in (("xml", "x%d" % i), ("xta", "a%d" % i)):
            tl = res.get(cid)
            if not tl or tl[-1] != "END":
                continue
            lib = lib_bindings(tl)
            n_uses += len(lib)
            if [x[0] for x in lib] != names:
                dis.append((i, fmt, "use sites differ: script %s library %s" % (names[:12], [x[0] for x in lib][:12])))
                continue
            for j, ((nm, k, b), e) in enumerate(zip(lib, expect)):
                if k != e:
                    dis.append((i, fmt, "use #%d of %r: library binds to int[0,%s] (%s), declarative semantics says int[0,%s]" % (j, nm, k, b, e)))
                    break
            n_unknown += sum(1 for e in expect if e is None)
    cov["script_cases"] = 2 * n
    cov["uses_checked"] = n_uses
    cov["uses_expected_unknown"] = n_unknown
    cov["spec_impl_differences"] = spec_impl_diff
    if spec_impl_diff:
        ctx.proof_broken("C07_binding", "drv_c07: specRun and implRun differ on %d generated scripts" % spec_impl_diff, "%d scripts" % n)
    by = {}
    for i, fmt, what in dis:
        by.setdefault(what.split(":")[0][:40], []).append((i, fmt, what))
    if dis:
        i, fmt, what = dis[0]
        m, g = models[i]
        text = render_xml(m) if fmt == "xml" else render_xta(m)
        ctx.finding("binding:" + ("unknown-bound" if "says int[0,None]" in what else "wrong-declaration" if "use #" in what else "use-sites"),
                    "%s model %d: %s (%d of %d inputs disagree)" % (fmt, i, what, len(dis), 2 * n),
                    {"format": fmt, "input_b64": base64.b64encode(text.encode()).decode(), "script": " ".join(g.ev), "observed": what,
                     "required": "binding = nearest enclosing scope's last preceding declaration"})
    # (b) callback level: replay through M-BUILD ---------------------------------------------------------------------------------
    text = []
    traced = [c for c in cases if res.get(c[0]) and res[c[0]][-1] == "END"]
    for c in traced:
        text.append("BEGIN %s binds" % c[0])
        text += [l for l in res[c[0]] if l.startswith("C ")]
        text.append("END %s" % c[0])
    rc, out, err, dt = core.run_exe(core.lean_exe("drv_c08"), [], stdin_text="\n".join(text) + "\n", timeout=1200)
    model, cur = {}, None
    for line in out.split("\n"):
        if line.startswith("BEGIN "):
            cur = line.split()[1]
            model[cur] = []
        elif line.startswith("END "):
            cur = None
        elif cur is not None:
            model[cur].append(line)
    mdis = []
    for c in traced:
        mo = model.get(c[0], [])
        mm = [l for l in mo if l.startswith("M ")]
        if mm:
            mdis.append((c, "stack depth: " + mm[0]))
            continue
        mb = [(l.split()[1].strip('"'), l.split()[2]) for l in mo if l.startswith("B ")]
        mb = [x for x in mb if x[0] in NAMES]
        lb = lib_bindings(res[c[0]])
        if len(mb) != len(lb):
            mdis.append((c, "number of identifier uses differs: model %d library %d" % (len(mb), len(lb))))
            continue
        fwd, bwd = {}, {}
        for (nm, sid), (nm2, k, bpos) in zip(mb, lb):
            key = None if k is None else (nm2, k)
            sidk = None if sid == "none" else sid
            if (sidk is None) != (key is None) or fwd.setdefault(sidk, key) != key or bwd.setdefault(key, sidk) != sidk:
                mdis.append((c, "identifier %r: model symbol %s vs library %s is not a one-to-one correspondence" % (nm, sid, key)))
                break
    cov["callback_level_traces"] = len(traced)
    cov["correspondence_cases"] = 2 * n + len(traced)
    cov["traces_validated_against_impl"] = len(traced)
    cov["correspondence_disagreements"] = len(dis) + len(mdis)
    if mdis:
        c, what = mdis[0]
        ctx.proof_broken("correspondence:builder-model-scopes", "M-BUILD replay of the real callback trace disagrees (%d of %d): %s\n%s"
                         % (len(mdis), len(traced), what, c[4][:3000]), "%d uses checked against the declarative semantics" % n_uses)
    # (c) queries ------------------------------------------------------------------------------------------------------------------
    qcases, qmeta = [], {}
    for i, (m, g) in enumerate(models):
        qs, exp = [], []
        gl = {}
        for nm, k, dep in g.decls:
            if dep == 1:
                gl[nm] = k
        for nm in POOL:
            qs.append("E<> %s >= 0" % nm)
            exp.append(("ID", nm, gl.get(nm)))
        for ti, t in enumerate(m["templates"]):
            if "inst" not in t:
                continue
            pn, args = t["inst"]
            for nm, kl in t["tdecl"].items():
                if len(kl) == 1 and nm != TY:      # `P.ty` in a query is lexed at global level, where ty is the type name
                    qs.append("E<> %s.%s >= 0" % (pn, nm))
                    exp.append(("DOT", pn, nm, kl[0]))
            if t["pnames"] and re.match(r"\d+$", args[0]):
                qs.append("E<> %s.yd%d >= 0" % (pn, ti))
                exp.append(("DOTSUBST", pn, "yd%d" % ti, int(args[0])))
            if len(t["pnames"]) > 1 and re.match(r"\d+$", args[-1]):
                qs.append("E<> %s.ye%d >= 0" % (pn, ti))
                exp.append(("DOTSUBST", pn, "ye%d" % ti, int(args[-1])))
        for pn, ti, v, last in m["chains"]:
            qs.append("E<> %s.yd%d >= 0" % (pn, ti))
            exp.append(("DOTSUBST", pn, "yd%d" % ti, v))
            if last is not None:
                qs.append("E<> %s.ye%d >= 0" % (pn, ti))
                exp.append(("DOTSUBST", pn, "ye%d" % ti, last))
        qmeta["q%d" % i] = (qs, exp)
        qcases.append(("q%d" % i, render_xml(m), "\n".join(qs)))
    # many two-step instantiations in one model: which step's argument is substituted first depends on the addresses of the parameter
    # symbols (instance_t::mapping is a std::map over symbol_t), so one chain alone exercises one order only
    nchain = 30
    cx = ['<?xml version="1.0" encoding="utf-8"?><nta><declaration>int gz;</declaration>',
          '<template><name>T</name><parameter>const int[0,9] p, const int[0,9] q</parameter><declaration>int[0,p] yd0; int[0,q] ye0;</declaration>'
          '<location id="id0"><name>L</name></location><init ref="id0"/></template>',
          "<system>" + "\n".join("Q%d(const int[0,9] m%d) = T(m%d, %d);\nR%d = Q%d(%d);" % (i, i, i, (i + 3) % 9 + 1, i, i, i % 9 + 1) for i in range(nchain)),
          "system %s;</system></nta>" % ", ".join("R%d" % i for i in range(nchain))]
    cqs, cexp = [], []
    for i in range(nchain):
        cqs += ["E<> R%d.yd0 >= 0" % i, "E<> R%d.ye0 >= 0" % i]
        cexp += [("DOTSUBST", "R%d" % i, "yd0", i % 9 + 1), ("DOTSUBST", "R%d" % i, "ye0", (i + 3) % 9 + 1)]
    models.append(({"globals": [], "templates": [], "system": [], "processes": [], "chains": [], "xml": "\n".join(cx)}, Gen(r)))
    chain_model_index = len(models) - 1
    qmeta["q%d" % (len(models) - 1)] = (cqs, cexp)
    qcases.append(("q%d" % (len(models) - 1), "\n".join(cx), "\n".join(cqs)))
    # quantifiers over the instances of dynamic templates: `p.y` is looked up in the template of the INNERMOST binder named p
    dyn_xml = ('<?xml version="1.0" encoding="utf-8"?><nta><declaration>dynamic A(int k); dynamic B(int k); int y;</declaration>'
               '<template><name>A</name><parameter>int k</parameter><declaration>bool y; int v;</declaration><location id="id0"><name>S</name></location><init ref="id0"/></template>'
               '<template><name>B</name><parameter>int k</parameter><declaration>clock y; int w;</declaration><location id="id1"><name>S</name></location><init ref="id1"/></template>'
               '<template><name>M</name><location id="id2"><name>S</name></location><init ref="id2"/>'
               '<transition><source ref="id2"/><target ref="id2"/><label kind="assignment">spawn A(1), spawn B(2)</label></transition></template>'
               '<system>system M;</system></nta>')
    dyn_q = [("E<> exists (p : A) (exists (p : B) (p.y > 0))", ["(CLOCK)"]),
             ("E<> exists (p : A) (exists (q : B) (q.y > 0 && p.y))", ["(CLOCK)", "(BOOL)"]),
             ("E<> (exists (p : A) (p.y)) && (exists (p : B) (p.y > 1))", ["(BOOL)", "(CLOCK)"]),
             ("E<> exists (p : B) (exists (p : A) (p.y))", ["(BOOL)"]),
             ("E<> forall (p : A) (p.y || exists (p : B) (p.y > 2))", ["(BOOL)", "(CLOCK)"]),
             ("E<> exists (p : B) ((forall (p : A) (p.y)) && p.y > 3)", ["(BOOL)", "(CLOCK)"]),
             ("E<> y > 1 && exists (p : A) (p.y)", ["(RANGE_(INT)_(CONSTANT_int_-32768)_(CONSTANT_int_32767))", "(BOOL)"])]
    models.append(({"globals": [], "templates": [], "system": [], "processes": [], "chains": [], "xml": dyn_xml}, Gen(r)))
    qmeta["q%d" % (len(models) - 1)] = ([q for q, _ in dyn_q], [("IDTYPES", "y", t) for _, t in dyn_q])
    qcases.append(("q%d" % (len(models) - 1), dyn_xml, "\n".join(q for q, _ in dyn_q)))
    # names that are keyword tokens in the query syntax and admitted again as identifiers (NonTypeId of parser.y: sup inf bounds simulation
    # and the one-letter tokens): in a query each must bind to its own declaration, globally and as a member of a process
    kw_names = ["sup", "inf", "bounds", "simulation", "A", "U", "W", "R", "E", "M"]
    kw_xml = ('<?xml version="1.0" encoding="utf-8"?><nta><declaration>%s</declaration><template><name>T</name><declaration>%s</declaration>'
              '<location id="id0"><name>S</name></location><init ref="id0"/></template><system>P = T(); system P;</system></nta>'
              % (" ".join("int[0,%d] %s;" % (11 + i, nm) for i, nm in enumerate(kw_names)),
                 " ".join("int[0,%d] %s;" % (31 + i, nm) for i, nm in enumerate(kw_names))))
    kq, kexp = [], []
    for i, nm in enumerate(kw_names):
        kq += ["E<> %s >= 0" % nm, "E<> P.%s >= 0" % nm, "E<> P.%s + %s >= %s" % (nm, nm, kw_names[(i + 1) % len(kw_names)])]
        kexp += [("ID", nm, 11 + i), ("DOT", "P", nm, 31 + i), ("DOT", "P", nm, 31 + i)]
    models.append(({"globals": [], "templates": [], "system": [], "processes": [], "chains": [], "xml": kw_xml}, Gen(r)))
    qmeta["q%d" % (len(models) - 1)] = (kq, kexp)
    qcases.append(("q%d" % (len(models) - 1), kw_xml, "\n".join(kq)))
    # members whose type is a NAMED type (typedef, record) that mentions a template parameter: the argument is substituted there too
    td_xml = ('<?xml version="1.0" encoding="utf-8"?><nta><declaration>int gz;</declaration><template><name>T</name>'
              '<parameter>const int[0,9] p, const int[0,9] q</parameter><declaration>typedef int[0,p] idx_t; idx_t yd0; typedef int[0,q] jdx_t; jdx_t ye0[2]; '
              'typedef struct { int[0,p] f; idx_t g; } rec_t; rec_t yr; int[0,q] yb[idx_t];</declaration>'
              '<location id="id0"><name>L</name></location><init ref="id0"/></template>'
              '<system>P5 = T(5, 3); P7 = T(7, 2); Q(const int[0,9] m) = T(m, 4); R = Q(6); system P5, P7, R;</system></nta>')
    tq, texp = [], []
    for pn, pa, qa in (("P5", 5, 3), ("P7", 7, 2), ("R", 6, 4)):
        tq += ["E<> %s.yd0 >= 0" % pn, "E<> %s.ye0[1] >= 0" % pn, "E<> %s.yr.f >= 0" % pn, "E<> %s.yr.g >= 0" % pn, "E<> %s.yb[0] >= 0" % pn]
        texp += [("DOTSUBST", pn, "yd0", pa), ("DOTSUBST", pn, "ye0", qa), ("DOTSUBST", pn, "yr", pa), ("DOTSUBST", pn, "yr", pa),
                 ("DOTSUBST", pn, "yb", qa)]
    models.append(({"globals": [], "templates": [], "system": [], "processes": [], "chains": [], "xml": td_xml}, Gen(r)))
    qmeta["q%d" % (len(models) - 1)] = (tq, texp)
    qcases.append(("q%d" % (len(models) - 1), td_xml, "\n".join(tq)))
    # identifiers at the length limit of the lexer (MAXLEN - 1 characters): a longer name is reported, never silently cut to a declared one
    try:
        limit = int(re.search(r"MAXLEN\s*=\s*(\d+)", open(os.path.join(core.REPO, "src", "libparser.h")).read()).group(1)) - 1
    except Exception:  # noqa
        limit = 4000
    base_name = "n" * (limit - 1)
    ln_xml = ('<?xml version="1.0" encoding="utf-8"?><nta><declaration>int[0,7] %sa; int[0,8] %s;</declaration><template><name>T</name>'
              '<location id="id0"><name>S</name></location><init ref="id0"/></template><system>system T;</system></nta>' % (base_name, base_name))
    lq = ["E<> %sa >= 0" % base_name, "E<> %s >= 0" % base_name, "E<> %sab >= 0" % base_name, "E<> %saab >= 0" % base_name, "E<> %sb >= 0" % base_name]
    lexp = [("ID", base_name + "a", 7), ("ID", base_name, 8), ("LONG",), ("LONG",), ("ID", base_name + "b", None)]
    models.append(({"globals": [], "templates": [], "system": [], "processes": [], "chains": [], "xml": ln_xml}, Gen(r)))
    qmeta["q%d" % (len(models) - 1)] = (lq, lexp)
    qcases.append(("q%d" % (len(models) - 1), ln_xml, "\n".join(lq)))
    cov["identifier_length_limit"] = limit
    # members behind local type names, parameters and other members, in every order; calls judged by the callee's own body
    nmem = 40 if not ctx.thorough else 600
    for _ in range(nmem):
        mx, mq, mexp = member_case(r)
        models.append(({"globals": [], "templates": [], "system": [], "processes": [], "chains": [], "xml": mx}, Gen(r)))
        qmeta["q%d" % (len(models) - 1)] = (mq, mexp)
        qcases.append(("q%d" % (len(models) - 1), mx, "\n".join(mq)))
    cov["process_member_models"] = nmem
    # (d) call sequences: the same documents, changed through the public interface between two rounds of the same queries.  A process is
    # taken out of the system (any but the last one moves every later symbol of the global frame; the last one moves none), sometimes a
    # second symbol after it (another process, a global variable, the type name); then every name of the frame is resolved again
    seqmeta = {}

    def sequence(cid, xml, qs, exp, steps):
        lines, meta = [], []
        for si, (op, name) in enumerate(steps):
            lines += ["#%s %s" % (op, name), "#resolve-all"]
            meta += [("RM", name), ("ALL",)]
            gone = {nm for _, nm in steps[:si + 1]}
            for q, e in zip(qs, exp):
                lines.append(q)
                # what the query said about a removed name no longer holds; where the name binds now is the script's business (AT tokens)
                meta.append(("Q", q, None if (e[0] in ("DOT", "DOTSUBST", "MEMBER", "ID") and e[1] in gone) else e))
        seqmeta[cid] = (lines, meta, xml)
        qcases.append((cid, xml, "\n".join(lines)))
    for i, (m, g) in enumerate(models[:n]):
        procs = m["processes"]
        if not procs:
            continue
        qs, exp = qmeta["q%d" % i]
        steps = [("remove-process", r.choice(procs[:-1]) if len(procs) > 1 and r.random() < 0.7 else r.choice(procs))]
        if r.random() < 0.4:
            c = r.random()
            rest = [x for x in procs if x != steps[0][1]]
            steps.append(("remove-process", r.choice(rest)) if rest and c < 0.4 else ("remove-symbol", r.choice(POOL + [TY, "gz"] + procs)))
        sequence("s%d" % i, render_xml(m), qs, exp, steps)
    fixed = [(chain_model_index, ["R%d" % v for v in ([0, 13, 28, 29] if not ctx.thorough else range(nchain))]),
             (chain_model_index + 2, ["P"]), (chain_model_index + 3, ["P5", "P7", "R"] if ctx.thorough else ["P5"])]
    for mi, victims in fixed:
        qs, exp = qmeta["q%d" % mi]
        for v in victims:
            sequence("s%d_%s" % (mi, v), models[mi][0]["xml"], qs, exp, [("remove-process", v)])
    for mi in range(len(models) - nmem, len(models), 4):
        qs, exp = qmeta["q%d" % mi]
        sequence("s%d" % mi, models[mi][0]["xml"], qs, exp, [("remove-process", "P0")])
    cov["call_sequences"] = len(seqmeta)
    def run_queries(exe):
        """the plain queries in one process, the call sequences in another: a document that is changed under the parser's feet may take
        the process down, and the answers to the plain queries must not go with it"""
        res_, sites = {}, set()
        for batch in ([c for c in qcases if c[0] not in seqmeta], [c for c in qcases if c[0] in seqmeta]):
            restarts = 0
            while batch:
                qtext = "".join("%s %s %s\n" % (cid, base64.b64encode(x.encode()).decode(), base64.b64encode(q.encode()).decode()) for cid, x, q in batch)
                rc, out, err, _ = core.run_exe(exe, ["batch"], stdin_text=qtext, timeout=900, env=C08.ABORT_ENV)
                cur = None
                for line in out.split("\n"):
                    if line.startswith("BEGIN "):
                        cur = line.split()[1]
                        res_[cur] = {"rc": None, "q": {}, "g": None}
                    elif line.startswith("END "):
                        cur = None
                    elif cur and line.startswith("RC "):
                        res_[cur]["rc"] = line
                    elif cur and line.startswith("Q "):
                        res_[cur]["q"][int(line.split()[1])] = line.split()[2:]
                    elif cur and line.startswith("G "):
                        res_[cur]["g"] = line.split()[1:]
                if rc == 0:
                    break
                dead = [k for k, c in enumerate(batch) if c[0] == cur]
                site = C08.crash_site(err, rc)
                if site not in sites:
                    sites.add(site)
                    done = len(res_[cur]["q"]) if dead else 0
                    c = batch[dead[0]] if dead else None
                    ctx.finding("crash:" + site, "c07 harness died rc=%s%s" % (rc, " in case %s after %d answers, at: %s" % (
                        cur, done, c[2].split("\n")[done:done + 1]) if c else ""),
                                {"stderr": err[-3000:], "format": "xml", "input_b64": base64.b64encode(c[1].encode()).decode() if c else None,
                                 "sequence": c[2].split("\n") if c else None})
                # the cases behind the one it died in still have something to say (what is left of the dead one's answers is not judged)
                restarts += 1
                if not dead or restarts > 8:
                    break
                res_.pop(cur, None)
                batch = batch[dead[0] + 1:]
        return res_
    qres = run_queries(exe07)
    # the same queries on the -O2 build: the mapping of a process is a std::map over symbol ADDRESSES, and the allocator of the sanitizer
    # build hands out addresses in another order than the ordinary one
    exe07p = core.build_harness(core.build_repo("plain"), "c07p", ["c07.cpp"])
    qres_plain = run_queries(exe07p)

    def judge(q, e, toks, clean):
        """what is wrong with the library's answer `toks` to query q, given the expectation e (None: nothing)"""
        if e is None:
            return None
        if e[0] == "ID":
            ids = [t for t in toks if t.startswith("ID:%s:" % e[1])]
            if e[2] is None:
                if ids:
                    return "unknown name bound: %s" % ids
            else:
                km = KRE.search(ids[0]) if ids else None
                if not km or int(km.group(1)) != e[2]:
                    return "expected global int[0,%d], got %s" % (e[2], toks)
            return None
        if e[0] == "LONG":
            if not [t for t in toks if t.startswith("ERR:")]:
                return "an identifier longer than the limit is accepted without a diagnostic: %s" % [t[:60] for t in toks]
            return None
        if e[0] == "IDTYPES":
            got = [t.split(":", 2)[2] for t in toks if t.startswith("ID:%s:" % e[1])]
            if got != e[2]:
                return "the occurrences of %r have the types %s, the innermost binders give %s" % (e[1], got, e[2])
            return None
        if not clean:
            return None       # process types are only meaningful for accepted models
        d = [t for t in toks if t.startswith("DOT:%s.%s#" % (e[1], e[2]))]
        # the index of P.x read the way its consumers read it: a position in the frame of P's template
        decl = [t for t in toks if t.startswith("DECL:%s." % e[1])]
        if d and decl != ["DECL:%s.%s#%s" % (e[1], e[2], d[0].split("#", 1)[1].split(":", 1)[0])]:
            return "%s.%s designates %s in the frame of its template, not the declaration of %r" % (e[1], e[2], decl, e[2])
        if e[0] == "DOT":
            km = KRE.search(d[0]) if d else None
            if not km or int(km.group(1)) != e[3]:
                return "expected %s.%s = the template's int[0,%d], got %s" % (e[1], e[2], e[3], toks)
        elif e[0] == "DOTSUBST":
            if not d or "(CONSTANT_int_0)_(CONSTANT_int_%d)" % e[3] not in d[0]:
                return "expected the argument %d substituted for the parameter in the type of %s.%s, got %s" % (e[3], e[1], e[2], toks)
        elif e[0] == "MEMBER":
            km = KRE.search(d[0]) if d else None
            if not d or (e[3] is not None and (not km or int(km.group(1)) != e[3])):
                return "expected %s.%s = the template's %s %s%s, got %s" % (e[1], e[2], e[4], e[2], "" if e[3] is None else " of int[0,%d]" % e[3], toks)
            tc = [t for t in toks if t.startswith("TC:")]
            if e[4] == "writes" and tc != ["TC:$Property_must_be_side-effect_free"]:
                return "%s.%s() calls a function that writes a variable, the verdict on the property is %s" % (e[1], e[2], tc)
            if e[4] != "writes" and tc != ["TC:ok"]:
                return "%s.%s is a legal operand of a property (%s), the verdict is %s" % (e[1], e[2], e[4], tc)
        return None

    qdis, nq, nq_clean, plain_bad = [], 0, 0, set()
    for build_name, qres_b in (("asan", qres), ("plain", qres_plain)):
      n_before = len(qdis)
      for cid, (qs, exp) in qmeta.items():
        rr = qres_b.get(cid)
        if not rr or not rr["rc"]:
            continue
        clean = rr["rc"].endswith("errors=0")
        for qi, (q, e) in enumerate(zip(qs, exp)):
            nq += 1
            nq_clean += 1 if (e[0] == "IDTYPES" or (clean and e[0] in ("DOT", "DOTSUBST", "MEMBER"))) else 0
            what = judge(q, e, rr["q"].get(qi, []), clean)
            if what:
                qdis.append((cid, q[:40] + "..." + q[-20:] if e[0] == "LONG" else q, what))
                plain_bad.add((cid, q, what, build_name))
      qdis[n_before:] = [(c_, q_, w_ + " [%s build of the library]" % build_name) for c_, q_, w_ in qdis[n_before:]]
    # (d) evaluated: the global frame of each changed document as a scope script (declarations in frame order, X:name per removal, U:name
    # per resolved name) through drv_c07; the symbol the library reports per name (its position in the frame before the change) must be
    # the declaration the declarative semantics gives, and the queries must still say about every remaining process what they said before
    sdis, seq_scripts, nseq_uses, nseq_removed = [], [], 0, 0
    for build_name, qres_b in (("asan", qres), ("plain", qres_plain)):
        for cid, (lines, meta, xml) in seqmeta.items():
            rr = qres_b.get(cid)
            if not rr or not rr["rc"] or rr["g"] is None:
                continue
            clean = rr["rc"].endswith("errors=0")
            ev, lib = ["D:" + ("" if nm == '""' else nm) for nm in rr["g"]], []
            for li, mt in enumerate(meta):
                toks = rr["q"].get(li, [])
                ats = [t[3:].rsplit("@", 1) for t in toks if t.startswith("AT:")]
                if mt[0] == "RM":
                    rm = [t[8:].rsplit("@", 1) for t in toks if t.startswith("REMOVED:") and t != "REMOVED:none"]
                    for nm, pos in rm:
                        nseq_removed += 1
                        ev += ["U:" + nm, "X:" + nm]      # the removed symbol is the one the name was bound to
                        lib.append((nm, pos, "%s (the symbol that is removed)" % lines[li]))
                    continue
                for nm, pos in ats:
                    if pos != "local":
                        ev.append("U:" + nm)
                        lib.append((nm, pos, lines[li]))
                if mt[0] == "Q":
                    what = judge(mt[1], mt[2], [t for t in toks if not t.startswith("AT:")], clean)
                    # (an answer that was already wrong on the unchanged document is reported there, not as an effect of the change)
                    if what and ("q" + re.match(r"s(\d+)", cid).group(1), mt[1], what, build_name) not in plain_bad:
                        sdis.append((cid, mt[1], "after %s: %s [%s build of the library]" % (", ".join(l for l in lines[:li] if l.startswith("#remove")), what, build_name)))
            seq_scripts.append((cid, build_name, ev, lib))
    if seq_scripts and os.path.exists(core.lean_exe("drv_c07")):
        rc, out, err, _ = core.run_exe(core.lean_exe("drv_c07"), [], stdin_text="\n".join(" ".join(ev) for _, _, ev, _ in seq_scripts) + "\n")
        for (cid, build_name, ev, lib), line in zip(seq_scripts, out.split("\n") + [""] * len(seq_scripts)):
            f = dict(x.split("=", 1) for x in line.split()[1:]) if line.startswith("WN ") else None
            spec = (f["spec"].split(",") if f["spec"] else []) if f else None
            if spec is None or len(spec) != len(lib) or f["spec"] != f["impl"]:
                ctx.proof_broken("C07_binding", "drv_c07 on the script of a changed global frame: %r (%d names resolved by the library)" % (line[:300], len(lib)),
                                 "call sequences of this run")
                break
            nseq_uses += len(lib)
            for (nm, pos, where), want in zip(lib, spec):
                if pos != want:
                    sdis.append((cid, where, "%r is bound to the symbol at position %s of the global frame (as it was before the change), the declarative "
                                 "semantics of the frame without the removed symbols gives %s [%s build of the library]" % (nm, pos, want, build_name)))
                    break
    cov["call_sequence_names_resolved"] = nseq_uses
    cov["call_sequence_removals"] = nseq_removed
    cov["call_sequence_disagreements"] = len(sdis)
    # the model of expr_dot's substitution rounds (Model/TypeSubst.lean, driver op DOTTYPE) on the two-step chains: whatever the order of the
    # mapping, the model's result is the library's type
    dt_lines, dt_expect = [], []
    for i in range(nchain):
        pv, qv = i % 9 + 1, (i + 3) % 9 + 1
        pairs = ["p=(IDENTIFIER m%d)" % i, "q=(CONSTANT int %d)" % qv, "m%d=(CONSTANT int %d)" % (i, pv)]
        for order in (pairs, pairs[::-1], [pairs[2], pairs[0], pairs[1]]):
            for member, par, val in (("yd0", "p", pv), ("ye0", "q", qv)):
                dt_lines.append("DOTTYPE\t(RANGE (INT) (CONSTANT int 0) (IDENTIFIER %s))\t%s" % (par, "\t".join(order)))
                dt_expect.append(("R%d" % i, member, "(RANGE (INT) (CONSTANT int 0) (CONSTANT int %d))" % val))
    ndt, dtdis = 0, []
    if os.path.exists(core.lean_exe("drv_c07")):
        rc, out, err, _ = core.run_exe(core.lean_exe("drv_c07"), [], stdin_text="\n".join(dt_lines) + "\n")
        chain_res = qres.get("q%d" % chain_model_index, {"q": {}})["q"]
        for k, ((pn, member, want), got) in enumerate(zip(dt_expect, out.split("\n"))):
            ndt += 1
            real = [t for qi in chain_res for t in chain_res[qi] if t.startswith("DOT:%s.%s#" % (pn, member))]
            real_ok = bool(real) and want.replace(" ", "_") in real[0]
            if got != want or not real_ok:
                dtdis.append((dt_lines[k], got, want, real[:1]))
    cov["dot_type_model_cases"] = ndt
    if dtdis:
        ctx.proof_broken("correspondence:type-substitution-model", "the substitution model and the library disagree on the type of a process member "
                         "(%d of %d): %r" % (len(dtdis), ndt, dtdis[0]), "process-member queries of this run")
    cov["query_cases"] = nq
    cov["process_member_queries_on_accepted_models"] = nq_clean
    cov["query_disagreements"] = len(qdis)
    if qdis:
        cid, q, what = qdis[0]
        i = int(cid[1:])
        ctx.finding("query:" + ("long-identifier" if "longer than the limit" in what else "process-member" if "." in (q[3:] if q.startswith("TC ") else q).split()[1] else "identifier"), "query %r: %s (%d of %d)" % (q, what, len(qdis), nq),
                    {"format": "xml", "input_b64": base64.b64encode((models[i][0].get("xml") or render_xml(models[i][0])).encode()).decode(), "query": q,
                     "observed": what})
    if sdis:
        cid, q, what = sdis[0]
        lines, meta, xml = seqmeta[cid]
        ctx.finding("sequence:remove", "%s: %s (%d disagreements in %d call sequences)" % (q, what, len(sdis), len(seqmeta)),
                    {"format": "xml", "input_b64": base64.b64encode(xml.encode()).decode(), "sequence": lines, "observed": what,
                     "required": "after Document::remove_process / frame_t::remove every other name keeps its declaration and the removed name "
                                 "falls back to the declaration it was hiding"})
    cov["evaluations"] = n_uses + nq
    cov["distinct_nontrivial"] = sum(1 for _, g in models[:n] if len(set(g.ev)) > 8)
    cov["rule"] = "library binding (type int[0,K] of the bound symbol) = declarative nearest-enclosing / last-preceding binding computed by drv_c07"
    cov["samples"] = [{"script": " ".join(models[i][1].ev)[:400], "driver": drv[i][:300] if i < len(drv) else None} for i in range(min(3, n))]
    if not ok:
        for path, thm, msg in (core.failing_theorems(log) or [("?", "lake build", log[-300:])]):
            ctx.proof_broken(thm, msg + "\n" + log[-2000:], "%d uses on the implementation, %d disagreements" % (n_uses, len(dis)))
    ctx.assumptions += [
        "scripts are well nested (every leave closes an earlier enter): true of error-free derivations; error paths that leave frames pushed are "
        "the exception shapes of C16",
        "P.x (process member with arguments substituted) is checked on the real library only, not modelled",
        "declarations are told apart by their type int[0,K]; symbol positions are not usable (decl_var passes an empty position)",
        "call sequences change the global frame only (Document::remove_process, frame_t::remove) and only after the document is built; symbols "
        "are told apart by their position in that frame before the first change",
    ]


def replay(ctx, path):
    rj = json.load(open(path))
    print(json.dumps({k: v for k, v in rj.items() if k != "replay"}, indent=1))
    rp = rj.get("replay", {})
    if not rp.get("input_b64"):
        print(json.dumps(rp, indent=1)[:4000])
        return 1
    text = base64.b64decode(rp["input_b64"]).decode()
    if rp.get("sequence") or rp.get("query"):
        # a query, or a sequence of changes and queries, against the built document
        exe07 = core.build_harness(core.build_repo("asan"), "c07", ["c07.cpp"])
        qs = "\n".join(rp.get("sequence") or [rp["query"]])
        rc, out, err, _ = core.run_exe(exe07, ["batch"], stdin_text="r0 %s %s\n" % (base64.b64encode(text.encode()).decode(), base64.b64encode(qs.encode()).decode()),
                                       timeout=300, env=C08.ABORT_ENV)
        print(out[-6000:], err[-3000:])
        print("observed:", rp.get("observed"))
        return 1
    exe08, _ = C08.build_harness("asan")
    res, crashes = C08.run_batch(exe08, [("r0", rp.get("format", "xml"), 1, "t", text)], 1)
    for l in res.get("r0", []):
        if l.startswith("C 0 expr_identifier"):
            print(l)
    print("script:", rp.get("script"))
    return 1
