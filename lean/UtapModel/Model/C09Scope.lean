/-
C09 — a small model of name resolution (`frame_t::resolve`): a chain of frames, innermost first; inside a frame a name
maps to its LAST declaration (`mapping[name] = index`), an unknown name is looked up in the parent.  Core Lean only.
-/
import UtapModel.Model.C09Base
namespace UtapModel.C09

/-- a frame: the declared names, oldest first, each with a flag "is a typedef" -/
abbrev Frame := List (List Ch × Bool)

/-- index and typedef flag of the last declaration of `x` in the frame -/
def Frame.find (f : Frame) (x : List Ch) : Option (Nat × Bool) :=
  let rec go (f : Frame) (i : Nat) (acc : Option (Nat × Bool)) : Option (Nat × Bool) :=
    match f with
    | [] => acc
    | (n, t) :: rest => go rest (i + 1) (if n == x then some (i, t) else acc)
  go f 0 none

/-- (depth of the frame, index in the frame, typedef flag) of the declaration `x` resolves to -/
def resolve (chain : List Frame) (x : List Ch) : Option (Nat × Nat × Bool) :=
  let rec go (chain : List Frame) (d : Nat) : Option (Nat × Nat × Bool) :=
    match chain with
    | [] => none
    | f :: rest =>
      match f.find x with
      | some (i, t) => some (d, i, t)
      | none => go rest (d + 1)
  go chain 0

/-- `ExpressionBuilder::is_type` -/
def isTypeIn (chain : List Frame) (x : List Ch) : Bool :=
  match resolve chain x with
  | some (_, _, t) => t
  | none => false

def renFrame (ρ : List Ch → List Ch) (f : Frame) : Frame := f.map fun (n, t) => (ρ n, t)

end UtapModel.C09
