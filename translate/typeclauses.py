#!/usr/bin/env python3
"""Translator (tie T of C14 and C10):  src/typechecker.cpp + include/utap/type.h + include/utap/typechecker.h
    ->  lean/UtapModel/Gen/TypeClauses.lean

What is translated, from the *current* source text, on every run:
  * the inline boolean predicates of class type_t (type.h):        is_integer, is_integral, is_invariant, is_guard, ...
  * the static expression helpers at the top of typechecker.cpp:   is_integral(expr), is_number, isBound, isInvariantWR, ...
  * channelCapability, isSameScalarType, areEquivalent, areAssignmentCompatible, areEqCompatible,
    areInlineIfCompatible, getInlineIfCommonType, isParameterCompatible                (clause by clause, same order)
  * the `case` groups of TypeChecker::checkExpression for the arithmetic / relational / logical operators,
    NOT, UNARY_MINUS, RATE, INLINE_IF and the quantifiers FORALL / EXISTS / SUM
  * the acceptance tests of guards (visitEdge) and invariants (visitLocation);
  * the two tests of TypeChecker::checkObservationConstraints on the comparisons of a `{ observations } control:` query.

The translator contains a small C++ expression/statement parser.  It FAILS CLOSED: a statement, method, kind of
expression or shape it does not know raises TranslateError (the check then reports the tie as broken); nothing is
skipped silently except the statements listed in IGNORED_CALLS (recorded in the output header).

Modelling conventions (see lean/UtapModel/Model/Types.lean):
  * an `expression_t` operand is represented by its type (`expr[i].get_type()` = `t<i>`); `changes_any_variable()`
    of an operand is `false` (operands are side-effect free in every model the checks generate);
  * recursive rules get a fuel argument (`fF`), the public function runs them with fuel `size a + size b`;
  * `handleError(...)` sets the error flag; the result of a case is `some type` iff no error was flagged and the type
    is known -- exactly when the real checker emits no diagnostic for that node.
"""
import os
import re
import sys


class TranslateError(Exception):
    pass


# ------------------------------------------------------------------------------------------------ lexer
TOKEN_RE = re.compile(r"""
    (?P<ws>\s+)
  | (?P<id>[A-Za-z_][A-Za-z_0-9]*)
  | (?P<num>\d+(\.\d+)?)
  | (?P<str>"(\\.|[^"\\])*")
  | (?P<chr>'(\\.|[^'\\])')
  | (?P<op>\[\[|\]\]|::|->|\+\+|--|&&|\|\||==|!=|<=|>=|<<|>>|\+=|-=|&=|\|=|[-+*/%<>=!&|^~?:;,.(){}\[\]])
""", re.X)


def strip_comments(src):
    out = []
    i, n = 0, len(src)
    while i < n:
        if src.startswith("//", i):
            while i < n and src[i] != "\n":
                i += 1
        elif src.startswith("/*", i):
            j = src.find("*/", i + 2)
            if j < 0:
                raise TranslateError("unterminated comment")
            out.append("\n" * src.count("\n", i, j))
            i = j + 2
        elif src[i] == '"':
            j = i + 1
            while j < n and src[j] != '"':
                j += 2 if src[j] == "\\" else 1
            out.append(src[i:j + 1])
            i = j + 1
        else:
            out.append(src[i])
            i += 1
    text = "".join(out)
    return re.sub(r"(?m)^[ \t]*#[^\n]*$", "", text)   # preprocessor lines


def tokenize(src):
    toks = []
    i = 0
    while i < len(src):
        m = TOKEN_RE.match(src, i)
        if not m:
            raise TranslateError("cannot tokenize near %r" % src[i:i + 30])
        i = m.end()
        if m.lastgroup == "ws":
            continue
        toks.append((m.lastgroup, m.group(0)))
    return toks


# ------------------------------------------------------------------------------------------------ parser
BINPREC = {"||": 1, "&&": 2, "|": 3, "^": 4, "&": 5, "==": 6, "!=": 6, "<": 7, ">": 7, "<=": 7, ">=": 7,
           "<<": 8, ">>": 8, "+": 9, "-": 9, "*": 10, "/": 10, "%": 10}
TYPE_WORDS = {"type_t", "bool", "size_t", "int", "uint32_t", "int32_t", "auto", "expression_t", "std", "string",
              "symbol_t", "frame_t", "kind_t"}


class Parser:
    def __init__(self, toks, where):
        self.t = toks
        self.i = 0
        self.where = where

    def err(self, msg):
        ctx = " ".join(v for _, v in self.t[max(0, self.i - 8):self.i + 8])
        raise TranslateError("%s: %s near `%s`" % (self.where, msg, ctx))

    def peek(self, k=0):
        return self.t[self.i + k][1] if self.i + k < len(self.t) else None

    def peekkind(self, k=0):
        return self.t[self.i + k][0] if self.i + k < len(self.t) else None

    def eat(self, v=None):
        if self.i >= len(self.t):
            self.err("unexpected end, wanted %r" % v)
        tok = self.t[self.i]
        if v is not None and tok[1] != v:
            self.err("expected %r got %r" % (v, tok[1]))
        self.i += 1
        return tok[1]

    def at_end(self):
        return self.i >= len(self.t)

    # ---- expressions
    def expr(self):
        return self.assign()

    def assign(self):
        lhs = self.cond()
        if self.peek() in ("=", "&=", "|=", "+=", "-="):
            op = self.eat()
            rhs = self.assign()
            return ("assign", op, lhs, rhs)
        return lhs

    def cond(self):
        c = self.binary(1)
        if self.peek() == "?":
            self.eat("?")
            a = self.assign()
            self.eat(":")
            b = self.assign()
            return ("cond", c, a, b)
        return c

    def binary(self, minp):
        lhs = self.unary()
        while True:
            op = self.peek()
            if op in BINPREC and BINPREC[op] >= minp and self.peekkind() == "op":
                self.eat()
                rhs = self.binary(BINPREC[op] + 1)
                lhs = ("bin", op, lhs, rhs)
            else:
                return lhs

    def unary(self):
        if self.peek() in ("!", "-", "++", "--") and self.peekkind() == "op":
            op = self.eat()
            return ("un", op, self.unary())
        return self.postfix()

    def qualified_id(self):
        name = self.eat()
        quals = []
        while self.peek() == "::":
            self.eat("::")
            quals.append(name)
            name = self.eat()
        return ("id", name, tuple(quals))

    def args(self, close):
        out = []
        if self.peek() == close:
            self.eat(close)
            return out
        while True:
            if self.peek() == "{" and self.peek(1) == "}":
                self.eat("{")
                self.eat("}")
                out.append(("emptybrace",))
            else:
                out.append(self.assign())
            if self.peek() == ",":
                self.eat(",")
                continue
            self.eat(close)
            return out

    def primary(self):
        k, v = self.peekkind(), self.peek()
        if v == "(":
            self.eat("(")
            e = self.expr()
            self.eat(")")
            return ("paren", e)
        if k == "num":
            self.eat()
            return ("num", v)
        if k == "str":
            self.eat()
            return ("str", v)
        if k == "id":
            if v in ("true", "false"):
                self.eat()
                return ("bool", v == "true")
            e = self.qualified_id()
            if self.peek() == "{":  # braced construction  type_t{...}
                self.eat("{")
                a = self.args("}")
                return ("brace", e, a)
            return e
        self.err("unexpected token %r in expression" % v)

    def postfix(self):
        e = self.primary()
        while True:
            v = self.peek()
            if v == "(":
                self.eat("(")
                e = ("call", e, self.args(")"))
            elif v == "[":
                self.eat("[")
                idx = self.expr()
                self.eat("]")
                e = ("index", e, idx)
            elif v in (".", "->"):
                self.eat()
                e = ("member", e, self.eat())
            elif v in ("++", "--"):
                self.eat()
                e = ("post", v, e)
            else:
                return e

    # ---- statements
    def block(self):
        self.eat("{")
        out = []
        while self.peek() != "}":
            out.append(self.stmt())
        self.eat("}")
        return out

    def stmt_as_list(self):
        if self.peek() == "{":
            return self.block()
        return [self.stmt()]

    def looks_like_decl(self):
        # <type words / qualified / template-free> <identifier> ( '=' | ';' | '{' )
        j = self.i
        if self.t[j][0] != "id":
            return False
        if self.t[j][1] == "const":
            j += 1
        if self.t[j][0] != "id":
            return False
        j += 1
        while j + 1 < len(self.t) and self.t[j][1] == "::" and self.t[j + 1][0] == "id":
            j += 2
        if j < len(self.t) and self.t[j][1] in ("&", "*"):
            j += 1
        return (j + 1 < len(self.t) and self.t[j][0] == "id" and self.t[j + 1][1] in ("=", ";", "{", ","))

    def stmt(self):
        v = self.peek()
        if v == "{":
            return ("block", self.block())
        if v == ";":
            self.eat(";")
            return ("empty",)
        if v == "if":
            self.eat("if")
            self.eat("(")
            c = self.expr()
            self.eat(")")
            th = self.stmt_as_list()
            el = None
            if self.peek() == "else":
                self.eat("else")
                el = self.stmt_as_list()
            return ("if", c, th, el)
        if v == "return":
            self.eat("return")
            e = None
            if self.peek() != ";":
                e = self.expr()
            self.eat(";")
            return ("return", e)
        if v == "break":
            self.eat("break")
            self.eat(";")
            return ("break",)
        if v == "using":
            while self.peek() != ";":
                self.eat()
            self.eat(";")
            return ("empty",)
        if v == "for":
            self.eat("for")
            self.eat("(")
            init = self.stmt()
            cond = self.expr()
            self.eat(";")
            step = self.expr()
            self.eat(")")
            body = self.stmt_as_list()
            return ("for", init, cond, step, body)
        if v in ("while", "do", "switch", "case", "default", "goto", "try", "throw", "continue"):
            self.err("unsupported statement %r" % v)
        if self.looks_like_decl():
            if self.peek() == "const":
                self.eat()
            ty = self.qualified_id()
            if self.peek() in ("&", "*"):
                self.eat()
            decls = []
            while True:
                name = self.eat()
                init = None
                if self.peek() == "=":
                    self.eat("=")
                    init = self.assign()
                elif self.peek() == "{":
                    self.eat("{")
                    a = self.args("}")
                    init = ("brace", ty, a)
                decls.append((name, init))
                if self.peek() == ",":
                    self.eat(",")
                    continue
                break
            self.eat(";")
            if len(decls) == 1:
                return ("decl", ty[1], decls[0][0], decls[0][1])
            return ("block", [("decl", ty[1], n, i) for n, i in decls])
        e = self.expr()
        self.eat(";")
        return ("expr", e)


def flatten(stmts):
    out = []
    for s in stmts:
        if s[0] == "block":
            out += flatten(s[1])
        elif s[0] == "empty":
            continue
        else:
            out.append(s)
    return out


# ------------------------------------------------------------------------------------------------ source slicing
def find_matching(toks, i, open_, close):
    depth = 0
    while i < len(toks):
        if toks[i][1] == open_:
            depth += 1
        elif toks[i][1] == close:
            depth -= 1
            if depth == 0:
                return i
        i += 1
    raise TranslateError("unbalanced %s" % open_)


def find_function(toks, name, qual=None):
    """Locate `name ( params ) [const] { body }` (a definition).  Returns (params tokens, body tokens incl. braces)."""
    hits = []
    for i, (k, v) in enumerate(toks):
        if k == "id" and v == name and i + 1 < len(toks) and toks[i + 1][1] == "(":
            if qual is not None and not (i >= 2 and toks[i - 1][1] == "::" and toks[i - 2][1] == qual):
                continue
            if qual is None and i >= 1 and toks[i - 1][1] in ("::", ".", "->"):
                continue
            # must be preceded by a type word (a definition/declaration, not a call)
            j = i - 1
            if qual is not None:
                j = i - 3
            if j < 0 or toks[j][0] != "id" or toks[j][1] in ("return", "else"):
                continue
            close = find_matching(toks, i + 1, "(", ")")
            k2 = close + 1
            if k2 < len(toks) and toks[k2][1] == "const":
                k2 += 1
            if k2 < len(toks) and toks[k2][1] == "{":
                end = find_matching(toks, k2, "{", "}")
                hits.append((toks[i + 2:close], toks[k2:end + 1]))
    if len(hits) != 1:
        raise TranslateError("expected exactly one definition of %s%s, found %d" % ((qual + "::") if qual else "", name, len(hits)))
    return hits[0]


def parse_params(ptoks, where):
    """[(ctype, name)]"""
    out = []
    cur = []
    for t in ptoks + [("op", ",")]:
        if t[1] == ",":
            if cur:
                names = [v for k, v in cur if k == "id" and v != "const"]
                if len(names) < 2:
                    raise TranslateError("%s: cannot read parameter %r" % (where, cur))
                out.append((names[-2], names[-1]))
            cur = []
        else:
            cur.append(t)
    return out


# ------------------------------------------------------------------------------------------------ Lean emission
def tk_names(verif):
    src = open(os.path.join(verif, "lean", "UtapModel", "Model", "Types.lean")).read()
    m = re.search(r"inductive TK where(.*?)deriving", src, re.S)
    if not m:
        raise TranslateError("inductive TK not found in Model/Types.lean")
    return [x for x in re.findall(r"\|\s*([A-Z_]+)", m.group(1))]


# type_t methods modelled by hand in Model/Types.lean:  name -> (lean function, arity without receiver, result sort)
TY_METHODS = {
    "is": ("Ty.is", 1, "bool"), "get_kind": ("Ty.kind", 0, "kind"), "get": ("Ty.child", 1, "ty"),
    "get_label": ("Ty.getLabel", 1, "nat"), "get_sub": (None, None, "ty"), "get_array_size": ("Ty.getArraySize", 0, "ty"),
    "get_record_size": ("Ty.getRecordSize", 0, "nat"), "get_record_label": ("Ty.getRecordLabel", 1, "nat"),
    "unknown": ("Ty.isUnknown", 0, "bool"), "is_constant": ("Ty.isConstant", 0, "bool"),
    "is_mutable": ("Ty.isMutable", 0, "bool"), "size": ("Ty.nchildren", 0, "nat"),
}
# expression statements without influence on the verdict for the node (recorded in the generated header)
IGNORED_CALLS = {"compileTimeComputableValues.add_symbol", "checkType", "assert"}

WANTED_CASES = ["FRACTION", "PLUS", "MINUS", "AND", "OR", "XOR", "LT", "LE", "EQ", "NEQ", "GE", "GT", "MULT", "DIV", "POW",
                "MIN", "MAX", "MOD", "BIT_AND", "BIT_OR", "BIT_XOR", "BIT_LSHIFT", "BIT_RSHIFT", "NOT", "UNARY_MINUS",
                "RATE", "INLINE_IF", "FORALL", "EXISTS", "SUM"]


class Emitter:
    def __init__(self, verif, tks):
        self.tks = set(tks)
        self.unmodelled_kinds = []
        self.ty_preds = {}       # type.h predicate name -> lean name
        self.helpers = {}        # static helper name -> lean name
        self.funcs = {}          # translated function name -> dict(lean, params, defaults, rec)
        self.ignored = []

    def kind(self, name):
        if name in self.tks and name != "OTHER":
            return "TK." + name
        if name not in self.unmodelled_kinds:
            self.unmodelled_kinds.append(name)
        return "TK.OTHER"

    # env: C++ variable -> ("ty"|"bool"|"nat"|"exprop", lean text)
    def ex(self, e, env, where, self_ty=None, rec=None):
        """C++ expression AST -> Lean term text."""
        X = lambda x: self.ex(x, env, where, self_ty, rec)  # noqa: E731
        k = e[0]
        if k == "paren":
            return X(e[1])
        if k == "bool":
            return "true" if e[1] else "false"
        if k == "num":
            if "." in e[1]:
                raise TranslateError("%s: floating literal" % where)
            return e[1]
        if k == "un":
            if e[1] == "!":
                return "(!" + X(e[2]) + ")"
            raise TranslateError("%s: unary %s" % (where, e[1]))
        if k == "bin":
            op = e[1]
            a, b = X(e[2]), X(e[3])
            if op in ("&&", "||", "==", "!="):
                return "(%s %s %s)" % (a, op, b)
            if op in (">=", "<=", "<", ">"):
                return "(decide (%s %s %s))" % (a, {">=": "≥", "<=": "≤"}.get(op, op), b)
            raise TranslateError("%s: binary operator %s" % (where, op))
        if k == "cond":
            return "(if %s then %s else %s)" % (X(e[1]), X(e[2]), X(e[3]))
        if k == "id":
            name = e[1]
            if name in env:
                if env[name][0] in ("exprop", "exprs"):
                    raise TranslateError("%s: expression operand %s used other than through get_type()/a helper" % (where, name))
                return env[name][1]
            if e[2] and e[2][-1] == "Constants" or name.isupper() or re.match(r"^[A-Z][A-Z_0-9]*$", name):
                return self.kind(name)
            raise TranslateError("%s: unknown identifier %s" % (where, name))
        if k == "brace":
            if e[1][1] == "type_t":
                if not e[2]:
                    return "Ty.unknown"
                if len(e[2]) == 3 and e[2][0][0] == "id" and e[2][1] == ("emptybrace",) and e[2][2] == ("num", "0"):
                    return "(Ty.prim %s)" % self.kind(e[2][0][1])
            raise TranslateError("%s: braced construction %r" % (where, e))
        if k == "index":
            base = e[1]
            if base == ("id", "expr", ()) and e[2][0] == "num" and "expr" in env and env["expr"][0] == "exprs":
                return "EXPR%s" % e[2][1]
            return "(Ty.child %s %s)" % (X(base), X(e[2]))
        if k == "member":
            # pair members of get_range()
            if e[2] in ("first", "second") and e[1][0] == "call" and e[1][1][0] == "member" and e[1][1][2] == "get_range":
                return "(Ty.getRange %s).%d" % (X(e[1][1][1]), 1 if e[2] == "first" else 2)
            raise TranslateError("%s: member access .%s" % (where, e[2]))
        if k == "call":
            fn, args = e[1], e[2]
            if fn[0] == "member":
                obj, m = fn[1], fn[2]
                # expression operands
                if m == "get_type" and not args:
                    if obj[0] == "id" and obj[1] in env and env[obj[1]][0] == "exprop":
                        return env[obj[1]][1]
                    o = X(obj)
                    if o.startswith("EXPR"):
                        return "t" + o[4:]
                    raise TranslateError("%s: get_type() of %r" % (where, obj))
                if m == "changes_any_variable" and not args:
                    if not (obj[0] == "id" and obj[1] in env and env[obj[1]][0] == "exprop") and not X(obj).startswith("EXPR"):
                        raise TranslateError("%s: changes_any_variable() of %r" % (where, obj))
                    self.note_ignored("changes_any_variable() of an operand := false")
                    return "false"
                if m == "equal" and len(args) == 1:
                    return "(%s == %s)" % (X(obj), X(args[0]))
                recv = X(obj)
                if m == "get_sub":
                    if len(args) == 0:
                        return "(Ty.getSub %s)" % recv
                    if len(args) == 1:
                        return "(Ty.getSubI %s %s)" % (recv, X(args[0]))
                if m in TY_METHODS and TY_METHODS[m][0] and len(args) == TY_METHODS[m][1]:
                    return "(%s %s%s)" % (TY_METHODS[m][0], recv, "".join(" " + X(a) for a in args))
                if m in self.ty_preds and not args:
                    return "(%s %s)" % (self.ty_preds[m], recv)
                raise TranslateError("%s: unknown method .%s/%d" % (where, m, len(args)))
            if fn[0] == "id":
                name = fn[1]
                if fn[2] and fn[2][-1] == "type_t" and name == "create_primitive" and len(args) >= 1 and args[0][0] == "id":
                    return "(Ty.prim %s)" % self.kind(args[0][1])
                if name == "create_primitive" and len(args) >= 1 and args[0][0] == "id":
                    return "(Ty.prim %s)" % self.kind(args[0][1])
                if rec and name == rec[0]:
                    if len(args) != rec[1]:
                        raise TranslateError("%s: recursive call with %d args" % (where, len(args)))
                    return "(self %s)" % " ".join(X(a) for a in args)
                if name == "isModifiableLValue" and len(args) == 1 and args[0][0] == "id" and (args[0][1] + "#lv") in env:
                    return env[args[0][1] + "#lv"][1]
                if name in self.helpers and len(args) == 1:
                    a = args[0]
                    if a[0] == "id" and a[1] in env and env[a[1]][0] == "exprop":
                        return "(%s %s)" % (self.helpers[name], env[a[1]][1])
                    o = X(a)
                    if o.startswith("EXPR"):
                        return "(%s t%s)" % (self.helpers[name], o[4:])
                    raise TranslateError("%s: helper %s applied to %r" % (where, name, a))
                if self_ty is not None and name in self.ty_preds and not args:
                    return "(%s %s)" % (self.ty_preds[name], self_ty)
                if self_ty is not None and name == "is" and len(args) == 1:
                    return "(Ty.is %s %s)" % (self_ty, X(args[0]))
                if name in self.funcs:
                    f = self.funcs[name]
                    a = [X(x) for x in args]
                    if len(a) < len(f["params"]):
                        for i in range(len(a), len(f["params"])):
                            d = f["defaults"].get(i)
                            if d is None:
                                raise TranslateError("%s: call of %s with too few arguments" % (where, name))
                            a.append(d)
                    if len(a) != len(f["params"]):
                        raise TranslateError("%s: call of %s with %d arguments" % (where, name, len(a)))
                    return "(%s %s)" % (f["lean"], " ".join(a))
                raise TranslateError("%s: unknown function %s/%d" % (where, name, len(args)))
        raise TranslateError("%s: unsupported expression %r" % (where, e))

    def note_ignored(self, what):
        if what not in self.ignored:
            self.ignored.append(what)

    # ---- pure functions (bool / type_t / int valued):  statements -> Lean term
    def pure(self, stmts, env, where, self_ty=None, rec=None, ind="  "):
        if not stmts:
            raise TranslateError("%s: control reaches the end of a non-void function" % where)
        s, rest = stmts[0], stmts[1:]
        k = s[0]
        E = lambda x, en=env: self.ex(x, en, where, self_ty, rec)  # noqa: E731
        if k == "return":
            if s[1] is None:
                raise TranslateError("%s: return without value" % where)
            return ind + E(s[1])
        if k == "if":
            th = flatten(s[2]) + rest
            el = flatten(s[3] or []) + rest
            return "%sif %s then\n%s\n%selse\n%s" % (ind, E(s[1]), self.pure(th, env, where, self_ty, rec, ind + "  "), ind,
                                                    self.pure(el, env, where, self_ty, rec, ind + "  "))
        if k == "decl":
            if s[3] is None:
                raise TranslateError("%s: declaration of %s without initialiser" % (where, s[2]))
            sort = {"type_t": "ty", "bool": "bool", "size_t": "nat", "int": "nat", "uint32_t": "nat"}.get(s[1])
            if sort is None:
                raise TranslateError("%s: local of type %s" % (where, s[1]))
            env2 = dict(env)
            lean = "v_" + s[2]
            env2[s[2]] = (sort, lean)
            return "%slet %s := %s\n%s" % (ind, lean, E(s[3]), self.pure(rest, env2, where, self_ty, rec, ind))
        if k == "for":
            # for (size_t i = 0; i < N; i++) { if (C) { return V; } }     ->   if (range N).any (fun i => C) then V else rest
            init, cond, step, body = s[1], s[2], s[3], flatten(s[4])
            ok = (init[0] == "decl" and init[3] == ("num", "0") and cond[0] == "bin" and cond[1] == "<"
                  and cond[2] == ("id", init[2], ()) and step in (("post", "++", ("id", init[2], ())), ("un", "++", ("id", init[2], ())))
                  and len(body) == 1 and body[0][0] == "if" and body[0][3] is None
                  and len(flatten(body[0][2])) == 1 and flatten(body[0][2])[0][0] == "return")
            if not ok:
                raise TranslateError("%s: for-loop of unknown shape" % where)
            iv = "i_" + init[2]
            env2 = dict(env)
            env2[init[2]] = ("nat", iv)
            c = self.ex(body[0][1], env2, where, self_ty, rec)
            v = E(flatten(body[0][2])[0][1])
            return "%sif (List.range %s).any (fun %s => %s) then %s else\n%s" % (
                ind, E(cond[3]), iv, c, v, self.pure(rest, env, where, self_ty, rec, ind))
        if k == "expr":
            if self.ignorable(s[1]):
                return self.pure(rest, env, where, self_ty, rec, ind)
        raise TranslateError("%s: unsupported statement %r" % (where, s[:2]))

    def ignorable(self, e):
        if e[0] == "call":
            fn = e[1]
            name = None
            if fn[0] == "id":
                name = fn[1]
            elif fn[0] == "member" and fn[1][0] == "id":
                name = fn[1][1] + "." + fn[2]
            if name in IGNORED_CALLS:
                self.note_ignored("statement " + name + "(...)")
                return True
        return False

    # ---- case bodies of checkExpression: state (type, err) ; result Option Ty
    def case(self, stmts, env, where, ind="    "):
        E = lambda x: self.ex(x, env, where)  # noqa: E731
        if not stmts:
            raise TranslateError("%s: case falls through into the next label" % where)
        s, rest = stmts[0], stmts[1:]
        k = s[0]
        if k == "break":
            return ind + "finish type err"
        if k == "return":
            if s[1] == ("bool", False):
                return ind + "none"
            raise TranslateError("%s: return of %r inside a case" % (where, s[1]))
        if k == "if":
            th = flatten(s[2]) + rest
            el = flatten(s[3] or []) + rest
            c = E(s[1])
            if c == "false":
                return self.case(el, env, where, ind)
            return "%sif %s then\n%s\n%selse\n%s" % (ind, c, self.case(th, env, where, ind + "  "), ind,
                                                    self.case(el, env, where, ind + "  "))
        if k == "expr":
            e = s[1]
            if e[0] == "assign" and e[1] == "=" and e[2] == ("id", "type", ()):
                return "%slet type := %s\n%s" % (ind, E(e[3]), self.case(rest, env, where, ind))
            if e[0] == "call" and e[1][0] == "id" and e[1][1] == "handleError":
                nxt = self.case(rest, env, where, ind)
                if nxt.strip() == "none":
                    return nxt
                return "%slet err := true\n%s" % (ind, nxt)
            if self.ignorable(e):
                return self.case(rest, env, where, ind)
        raise TranslateError("%s: unsupported statement in case: %r" % (where, s[:2]))


def operand_indices(stmts_text):
    return sorted(set(int(x) for x in re.findall(r"expr \[ (\d+) \]", stmts_text)))


def translate(repo="/repo", verif=None):
    verif = verif or os.path.dirname(os.path.dirname(os.path.abspath(__file__)))
    tks = tk_names(verif)
    em = Emitter(verif, tks)
    tc_src = strip_comments(open(os.path.join(repo, "src", "typechecker.cpp")).read())
    th_src = strip_comments(open(os.path.join(repo, "include", "utap", "type.h")).read())
    hh_src = strip_comments(open(os.path.join(repo, "include", "utap", "typechecker.h")).read())
    tc = tokenize(tc_src)
    th = tokenize(th_src)
    out = []
    info = {"cases": {}, "functions": [], "type_predicates": [], "helpers": []}

    # 1. type.h inline predicates:  bool NAME() const { [using ...;] return E; }
    i = 0
    preds = []
    while i < len(th):
        if (th[i][1] == "bool" and i + 5 < len(th) and th[i + 1][0] == "id" and th[i + 2][1] == "(" and th[i + 3][1] == ")"
                and th[i + 4][1] == "const" and th[i + 5][1] == "{"):
            name = th[i + 1][1]
            end = find_matching(th, i + 5, "{", "}")
            preds.append((name, th[i + 5:end + 1]))
            i = end + 1
        else:
            i += 1
    for name, _ in preds:
        em.ty_preds[name] = "ty_" + name
    out.append("/-! ### predicates of `type_t` (include/utap/type.h) -/")
    for name, body in preds:
        stmts = flatten(Parser(body, "type.h:" + name).block())
        term = em.pure(stmts, {}, "type.h:" + name, self_ty="t")
        out.append("def ty_%s (t : Ty) : Bool :=\n%s\n" % (name, term))
        info["type_predicates"].append(name)
    for need in ("is_integer", "is_integral", "is_invariant", "is_guard", "is_constraint", "is_formula", "is_clock", "is_diff",
                 "is_double", "is_record", "is_array", "is_scalar", "is_channel", "is_string", "isBoolean"):
        if need not in em.ty_preds:
            raise TranslateError("type.h: inline predicate %s() not found" % need)

    # 2. static helpers of typechecker.cpp: static bool NAME(expression_t expr) { return E; }
    out.append("/-! ### static helpers of typechecker.cpp (an expression operand is represented by its type) -/")
    i = 0
    helpers = []
    while i + 8 < len(tc):
        if (tc[i][1] == "static" and tc[i + 1][1] == "bool" and tc[i + 2][0] == "id" and tc[i + 3][1] == "("
                and tc[i + 4][1] == "expression_t" and tc[i + 5][0] == "id" and tc[i + 6][1] == ")" and tc[i + 7][1] == "{"):
            end = find_matching(tc, i + 7, "{", "}")
            helpers.append((tc[i + 2][1], tc[i + 5][1], tc[i + 7:end + 1]))
            i = end + 1
        else:
            i += 1
    skipped = []
    for name, param, body in helpers:
        try:
            stmts = flatten(Parser(body, name).block())
            if len(stmts) != 1 or stmts[0][0] != "return":
                raise TranslateError("not a single return")
            term = em.pure(stmts, {param: ("exprop", "t")}, "helper " + name)
            em.helpers[name] = "h_" + name
            out.append("def h_%s (t : Ty) : Bool :=\n%s\n" % (name, term))
            info["helpers"].append(name)
        except TranslateError as ex:
            skipped.append((name, str(ex)))   # only an error if a translated clause uses it (unknown function then)
    info["helpers_not_translated"] = [n for n, _ in skipped]

    # 3. the compatibility rules
    defaults = {}
    for m in re.finditer(r"\b(\w+)\s*\(([^()]*)\)\s*(?:const)?\s*;", hh_src):
        ps = [p.strip() for p in m.group(2).split(",")]
        for idx, p in enumerate(ps):
            mm = re.search(r"=\s*(\w+)\s*$", p)
            if mm:
                defaults.setdefault(m.group(1), {})[idx] = mm.group(1)
    out.append("/-! ### compatibility rules of typechecker.cpp, clause by clause -/")

    def do_function(name, qual, result, recursive=False, expr_params=()):
        ptoks, body = find_function(tc, name, qual)
        params = parse_params(ptoks, name)
        env = {}
        lean_params = []
        for cty, pn in params:
            if cty == "type_t":
                env[pn] = ("ty", pn)
                lean_params.append("(%s : Ty)" % pn)
            elif cty == "bool":
                env[pn] = ("bool", pn)
                lean_params.append("(%s : Bool)" % pn)
            elif cty == "expression_t" and pn in expr_params:
                env[pn] = ("exprop", pn + "_ty")
                env[pn + "#lv"] = ("bool", pn + "_lv")
                lean_params.append("(%s_ty : Ty) (%s_lv : Bool)" % (pn, pn))
            else:
                raise TranslateError("%s: parameter of type %s" % (name, cty))
        stmts = flatten(Parser(body, name).block())
        rec = (name, len(params)) if recursive else None
        term = em.pure(stmts, env, name, rec=rec)
        rt = {"bool": "Bool", "ty": "Ty", "nat": "Nat"}[result]
        dflt = {"bool": "false", "ty": "Ty.unknown", "nat": "0"}[result]
        if recursive:
            if [c for c, _ in params] != ["type_t", "type_t"]:
                raise TranslateError("%s: recursive rule with unexpected parameters" % name)
            a, b = params[0][1], params[1][1]
            out.append("def %sBody (self : Ty → Ty → %s) %s : %s :=\n%s\n" % (name, rt, " ".join(lean_params), rt, term))
            out.append("def %sF : Nat → Ty → Ty → %s\n  | 0, _, _ => %s\n  | n + 1, %s, %s => %sBody (%sF n) %s %s\n" % (
                name, rt, dflt, a, b, name, name, a, b))
            out.append("def %s %s : %s := %sF (%s.size + %s.size) %s %s\n" % (name, " ".join(lean_params), rt, name, a, b, a, b))
        else:
            out.append("def %s %s : %s :=\n%s\n" % (name, " ".join(lean_params), rt, term))
        dd = {}
        for idx, v in defaults.get(name, {}).items():
            dd[idx] = v
        em.funcs[name] = {"lean": name, "params": params, "defaults": dd}
        info["functions"].append(name)

    do_function("channelCapability", None, "nat")
    do_function("isSameScalarType", None, "bool", recursive=True)
    do_function("areEquivalent", "TypeChecker", "bool", recursive=True)
    do_function("areAssignmentCompatible", "TypeChecker", "bool")
    do_function("areEqCompatible", "TypeChecker", "bool")
    do_function("areInlineIfCompatible", "TypeChecker", "bool")
    do_function("getInlineIfCommonType", "TypeChecker", "ty")
    do_function("isParameterCompatible", "TypeChecker", "bool", expr_params=("arg",))

    # 4. the operator cases of checkExpression
    _, body = find_function(tc, "checkExpression", "TypeChecker")
    sw = None
    for i in range(len(body) - 8):
        if [v for _, v in body[i:i + 9]] == ["switch", "(", "expr", ".", "get_kind", "(", ")", ")", "{"]:
            if sw is not None:
                raise TranslateError("checkExpression: more than one switch on expr.get_kind()")
            sw = i + 8
    if sw is None:
        raise TranslateError("checkExpression: switch (expr.get_kind()) not found")
    # what happens before the switch must be: empty check, recursion into the operands, early return
    pre = " ".join(v for _, v in body[1:sw - 8])
    expected_pre = ("if ( expr . empty ( ) ) return true ; bool ok = true ; for ( uint32_t i = 0 ; i < expr . get_size ( ) ; i ++ ) "
                    "ok &= checkExpression ( expr [ i ] ) ; if ( ! ok ) return false ; type_t type , arg1 , arg2 , arg3 ;")
    if pre != expected_pre:
        raise TranslateError("checkExpression: prologue changed: %r" % pre)
    swend = find_matching(body, sw, "{", "}")
    post = " ".join(v for _, v in body[swend + 1:-1])
    expected_post = ('if ( type . unknown ( ) ) { handleError ( expr , "$Type_error" ) ; return false ; } else { expr . set_type ( type ) ; '
                     'return true ; }')
    if post != expected_post:
        raise TranslateError("checkExpression: epilogue changed: %r" % post)
    # split the switch body into groups of labels + statements (depth 0 only)
    groups = []
    i = sw + 1
    labels, start = [], None
    depth = 0
    cur_labels = []
    j = i
    seg_start = None
    while j < swend:
        v = body[j][1]
        if depth == 0 and v in ("case", "default"):
            if seg_start is not None and j > seg_start:
                groups.append((cur_labels, body[seg_start:j]))
                cur_labels = []
            if v == "case":
                lab = []
                j += 1
                while body[j][1] != ":":
                    lab.append(body[j][1])
                    j += 1
                cur_labels.append(lab[-1])
            else:
                j += 1
                cur_labels.append("default")
            j += 1
            seg_start = j
            # consecutive labels: no statements in between
            continue
        if v in ("{", "(", "["):
            depth += 1
        elif v in ("}", ")", "]"):
            depth -= 1
        j += 1
    if seg_start is not None:
        groups.append((cur_labels, body[seg_start:swend]))
    # merge label-only groups (case A: case B: stmts) -- the loop above emits a group only when statements follow
    merged = []
    pending = []
    for labs, toks in groups:
        if not toks:
            pending += labs
        else:
            merged.append((pending + labs, toks))
            pending = []
    bin_ops, un_ops, q_ops = [], [], []
    bin_defs, un_defs, q_defs = [], [], []
    inline_if = None
    seen = set()
    for labs, toks in merged:
        wanted = [l for l in labs if l in WANTED_CASES]
        if not wanted:
            continue
        seen.update(wanted)
        text = " ".join(v for _, v in toks)
        where = "case " + "/".join(wanted)
        stmts = flatten(Parser([("op", "{")] + toks + [("op", "}")], where).block())
        idx = operand_indices(text)
        env = {"expr": ("exprs", "expr"), "type": ("ty", "type")}
        if "INLINE_IF" in wanted:
            if wanted != ["INLINE_IF"] or idx != [0, 1, 2]:
                raise TranslateError("INLINE_IF case has unexpected shape")
            inline_if = em.case(stmts, env, where)
            info["cases"]["INLINE_IF"] = "ternary"
        elif "get_symbol" in text:
            if idx != [0, 1]:
                raise TranslateError("%s: quantifier case touches operands %r" % (where, idx))
            term = em.case(stmts, env, where)
            if "t0" in term:
                raise TranslateError("%s: quantifier case depends on the binder's type" % where)
            for l in wanted:
                q_ops.append(l)
                info["cases"][l] = "quantifier"
            q_defs.append((wanted, term))
        elif idx == [0, 1]:
            term = em.case(stmts, env, where)
            for l in wanted:
                bin_ops.append(l)
                info["cases"][l] = "binary"
            bin_defs.append((wanted, term))
        elif idx == [0]:
            term = em.case(stmts, env, where)
            for l in wanted:
                un_ops.append(l)
                info["cases"][l] = "unary"
            un_defs.append((wanted, term))
        else:
            raise TranslateError("%s: touches operands %r" % (where, idx))
    missing = [w for w in WANTED_CASES if w not in seen]
    if missing:
        raise TranslateError("checkExpression: no case for %r" % missing)
    if inline_if is None:
        raise TranslateError("no INLINE_IF case")

    out.append("/-! ### `TypeChecker::checkExpression`: one function per group of `case` labels -/")
    out.append("def finish (type : Ty) (err : Bool) : Option Ty := if type.isUnknown || err then none else some type\n")

    def emit_ops(tyname, ops):
        out.append("inductive %s where\n%s\nderiving DecidableEq, Repr, Inhabited\n" % (tyname, "\n".join("  | " + o for o in ops)))
        out.append("def %s.all : List %s := [%s]\n" % (tyname, tyname, ", ".join("." + o for o in ops)))
        out.append("def %s.name : %s → String\n%s\n" % (tyname, tyname, "\n".join('  | .%s => "%s"' % (o, o) for o in ops)))
        out.append("def %s.ofName? (s : String) : Option %s := %s.all.find? (fun k => k.name == s)\n" % (tyname, tyname, tyname))

    emit_ops("BinOp", bin_ops)
    emit_ops("UnOp", un_ops)
    emit_ops("QOp", q_ops)
    for n, (labs, term) in enumerate(bin_defs):
        out.append("/-- case %s -/\ndef binCase_%s (t0 t1 : Ty) : Option Ty :=\n    let type := Ty.unknown\n    let err := false\n%s\n" % (
            ", ".join(labs), labs[0], term))
    out.append("def typeBin : BinOp → Ty → Ty → Option Ty\n" + "\n".join(
        "  | .%s, t0, t1 => binCase_%s t0 t1" % (l, labs[0]) for labs, _ in bin_defs for l in labs) + "\n")
    for labs, term in un_defs:
        out.append("/-- case %s -/\ndef unCase_%s (t0 : Ty) : Option Ty :=\n    let type := Ty.unknown\n    let err := false\n%s\n" % (
            ", ".join(labs), labs[0], term))
    out.append("def typeUn : UnOp → Ty → Option Ty\n" + "\n".join(
        "  | .%s, t0 => unCase_%s t0" % (l, labs[0]) for labs, _ in un_defs for l in labs) + "\n")
    for labs, term in q_defs:
        out.append("/-- case %s (t1 = type of the body) -/\ndef qCase_%s (t1 : Ty) : Option Ty :=\n    let type := Ty.unknown\n    let err := false\n%s\n" % (
            ", ".join(labs), labs[0], term))
    out.append("def typeQuant : QOp → Ty → Option Ty\n" + "\n".join(
        "  | .%s, t1 => qCase_%s t1" % (l, labs[0]) for labs, _ in q_defs for l in labs) + "\n")
    out.append("/-- case INLINE_IF (t0 condition, t1 then, t2 else) -/\ndef inlineIf (t0 t1 t2 : Ty) : Option Ty :=\n"
               "    let type := Ty.unknown\n    let err := false\n%s\n" % inline_if)

    # 5. acceptance of guards and invariants
    out.append("/-! ### acceptance of an edge guard (visitEdge) and of a location invariant (visitLocation) -/")

    def acceptance(fname, objtoks, lean_name, msg):
        """find `if (checkExpression(<obj>)) { if (<cond>) { ... msg ... handleError } ...` inside TypeChecker::fname and
        translate  accepted := !cond .  <obj> may be bound to a local reference first (auto& inv = loc.invariant;)."""
        _, fb = find_function(tc, fname, "TypeChecker")
        vals = [v for _, v in fb]
        cands = [objtoks]
        for q in range(len(vals) - len(objtoks) - 5):
            if vals[q] == "auto" and vals[q + 1] == "&" and vals[q + 3] == "=" and vals[q + 4:q + 4 + len(objtoks)] == objtoks \
                    and vals[q + 4 + len(objtoks)] == ";":
                cands.append([vals[q + 2]])
        found = []
        for cand in cands:
            pat = ["if", "(", "checkExpression", "("] + cand + [")", ")", "{"]
            for q in range(len(vals) - len(pat)):
                if vals[q:q + len(pat)] == pat:
                    found.append((q, cand))
        if len(found) != 1:
            raise TranslateError("%s: expected one `if (checkExpression(%s)) {`, found %d" % (fname, " ".join(objtoks), len(found)))
        q, cand = found[0]
        st = Parser(fb[q:], fname).stmt()
        inner = flatten(st[2])
        if not inner or inner[0][0] != "if":
            raise TranslateError("%s: no test directly after checkExpression(%s)" % (fname, " ".join(cand)))
        iff = inner[0]
        if msg not in repr(iff[2]) or "handleError" not in repr(iff[2]):
            raise TranslateError("%s: the first test after checkExpression does not report %s" % (fname, msg))
        obj = Parser([("id" if re.match(r"\w+$", v) else "op", v) for v in cand], fname).expr()

        def subst(e):
            if e == obj:
                return ("id", "OBJ", ())
            if isinstance(e, tuple):
                return tuple(subst(x) for x in e)
            if isinstance(e, list):
                return [subst(x) for x in e]
            return e
        c = em.ex(subst(iff[1]), {"OBJ": ("exprop", "t")}, fname)
        out.append("/-- %s: accepted iff the first test after checkExpression does not fire -/\ndef %s (t : Ty) : Bool := !%s\n" % (fname, lean_name, c))

    acceptance("visitEdge", ["edge", ".", "guard"], "guardAccepted", "$cannot_be_used_as_a_guard")
    acceptance("visitLocation", ["loc", ".", "invariant"], "invariantAccepted", "$cannot_be_used_as_an_invariant")

    # 6. the comparisons a `{ observations } control: goal` query may contain (visitProperty -> checkObservationConstraints)
    out.append("/-! ### `TypeChecker::checkObservationConstraints`: which comparisons of a partially observable game query are rejected -/")
    _, ob = find_function(tc, "checkObservationConstraints", "TypeChecker")
    ovals = [v for _, v in ob]
    pro = " ".join(ovals[1:ovals.index("bool")])
    if pro != "for ( size_t i = 0 ; i < expr . get_size ( ) ; ++ i ) { checkObservationConstraints ( expr [ i ] ) ; }":
        raise TranslateError("checkObservationConstraints: prologue changed: %r" % pro)
    sws = [q for q in range(len(ovals) - 9) if ovals[q:q + 9] == ["switch", "(", "expr", ".", "get_kind", "(", ")", ")", "{"]]
    if len(sws) != 2 or " ".join(ovals[ovals.index("bool"):sws[0]]) != "bool invalid = false ;":
        raise TranslateError("checkObservationConstraints: expected `bool invalid = false;` and two switches on expr.get_kind()")

    def switch_items(lo, hi, where):
        """the body of a switch as a flat list: ("label", NAME) | ("break",) | ("stmt", parsed statement)"""
        items, q = [], lo
        while q < hi:
            v = ob[q][1]
            if v == "case":
                r_ = q + 1
                while ob[r_][1] != ":":
                    r_ += 1
                items.append(("label", ob[r_ - 1][1]))
                q = r_ + 1
            elif v == "default":
                if ob[q + 1][1] != ":":
                    raise TranslateError("%s: default without `:`" % where)
                items.append(("label", "default"))
                q += 2
            elif v == "[[":
                if [x for _, x in ob[q:q + 4]] != ["[[", "fallthrough", "]]", ";"]:
                    raise TranslateError("%s: unknown attribute" % where)
                q += 4
            elif v == "break":
                items.append(("break",))
                q += 2
            elif v == ";":
                q += 1
            else:
                # one statement: `if (..) { .. }` or everything up to the next `;` outside brackets
                if v == "if":
                    r_ = find_matching(ob, q + 1, "(", ")") + 1
                    if ob[r_][1] != "{":
                        raise TranslateError("%s: if without a block" % where)
                    r_ = find_matching(ob, r_, "{", "}")
                else:
                    depth, r_ = 0, q
                    while r_ < hi and not (depth == 0 and ob[r_][1] == ";"):
                        depth += {"(": 1, "[": 1, "{": 1, ")": -1, "]": -1, "}": -1}.get(ob[r_][1], 0)
                        r_ += 1
                items.append(("stmt", Parser(ob[q:r_ + 1], where).stmt()))
                q = r_ + 1
        return items

    def runs(items, where):
        """label -> the statements executed from that label to the next `break` (fall-through included), in order"""
        out_ = {}
        for n, it in enumerate(items):
            if it[0] != "label":
                continue
            seq = []
            for jt in items[n + 1:]:
                if jt[0] == "break":
                    break
                if jt[0] == "stmt":
                    seq.append(jt[1])
            if it[1] in out_:
                raise TranslateError("%s: label %s twice" % (where, it[1]))
            out_[it[1]] = seq
        return out_

    e1 = find_matching(ob, sws[0] + 8, "{", "}")
    r1 = runs(switch_items(sws[0] + 9, e1, "checkObservationConstraints/1"), "checkObservationConstraints/1")
    oenv = {"expr": ("exprs", "expr"), "invalid": ("bool", "invalid")}
    arms = []
    for lab, seq in r1.items():
        lines_ = ["      let invalid := false"]
        for st in seq:
            if not (st[0] == "expr" and st[1][0] == "assign" and st[1][1] == "=" and st[1][2] == ("id", "invalid", ())):
                raise TranslateError("checkObservationConstraints: case %s does something else than assigning `invalid`: %r" % (lab, st[:2]))
            lines_.append("      let invalid := %s" % em.ex(st[1][3], oenv, "checkObservationConstraints case " + lab))
        if lab == "default":
            if len(lines_) > 1:
                raise TranslateError("checkObservationConstraints: the default case assigns")
            continue
        if lab not in bin_ops:
            raise TranslateError("checkObservationConstraints: case %s is not a binary operator of checkExpression" % lab)
        arms.append("  | .%s =>\n%s\n      invalid" % (lab, "\n".join(lines_)))
    out.append("/-- first test: `invalid` at the end of the switch = $Clock_lower_bound_must_be_weak_and_upper_bound_strict is reported\n"
               "    for the comparison `k` of operands of types t0, t1 (statements in source order, fall-through included) -/\n"
               "def obsInvalid (k : BinOp) (t0 t1 : Ty) : Bool :=\n  match k with\n%s\n  | _ => false\n" % "\n".join(arms))
    # between the switches:  if (invalid) { handleError(..) } else { switch ... }
    mid = " ".join(ovals[e1 + 1:sws[1]])
    if not re.fullmatch(r'if \( invalid \) \{ handleError \( expr , "[^"]*" \) ; \} else \{', mid):
        raise TranslateError("checkObservationConstraints: code between the two switches changed: %r" % mid)
    e2 = find_matching(ob, sws[1] + 8, "{", "}")
    if " ".join(ovals[e2 + 1:]) != "} }":
        raise TranslateError("checkObservationConstraints: epilogue changed: %r" % " ".join(ovals[e2 + 1:]))
    r2 = runs(switch_items(sws[1] + 9, e2, "checkObservationConstraints/2"), "checkObservationConstraints/2")
    arms = []
    for lab, seq in r2.items():
        if lab == "default":
            if seq:
                raise TranslateError("checkObservationConstraints: the default case of the second switch does something")
            continue
        ok_ = (len(seq) == 1 and seq[0][0] == "if" and seq[0][3] is None and len(flatten(seq[0][2])) == 1
               and flatten(seq[0][2])[0][0] == "expr" and "handleError" in repr(flatten(seq[0][2])[0]))
        if not ok_ or lab not in bin_ops:
            raise TranslateError("checkObservationConstraints: second switch, case %s: expected `if (C) handleError(..)`" % lab)
        arms.append("  | .%s => %s" % (lab, em.ex(seq[0][1], oenv, "checkObservationConstraints/2 case " + lab)))
    out.append("/-- second test (made when the first one does not fire): $Clock_differences_are_not_supported -/\n"
               "def obsDifference (k : BinOp) (t0 t1 : Ty) : Bool :=\n  match k with\n%s\n  | _ => false\n" % "\n".join(arms))
    out.append("/-- the comparison is rejected as an observation -/\n"
               "def obsRejected (k : BinOp) (t0 t1 : Ty) : Bool := obsInvalid k t0 t1 || obsDifference k t0 t1\n")
    info["observation_cases"] = sorted(r1)

    names = (["ty_" + n for n in info["type_predicates"]] + ["h_" + n for n in info["helpers"]])
    cases = (["typeBin", "typeUn", "typeQuant", "finish"] + ["binCase_" + labs[0] for labs, _ in bin_defs]
             + ["unCase_" + labs[0] for labs, _ in un_defs] + ["qCase_" + labs[0] for labs, _ in q_defs])
    out.append("/-! ### tactic abbreviations: unfold every generated predicate / every generated case -/")
    out.append("syntax \"unfold_type_preds\" (Lean.Parser.Tactic.location)? : tactic\nmacro_rules\n  | `(tactic| unfold_type_preds $[$loc]?) =>\n"
               "    `(tactic| simp (config := { maxSteps := 4000000 }) only [%s] $[$loc]?)\n" % ", ".join(names))
    out.append("syntax \"unfold_type_cases\" (Lean.Parser.Tactic.location)? : tactic\nmacro_rules\n  | `(tactic| unfold_type_cases $[$loc]?) =>\n"
               "    `(tactic| simp (config := { maxSteps := 4000000 }) only [%s] $[$loc]?)\n" % ", ".join(cases))
    header = ["/- GENERATED by translate/typeclauses.py from src/typechecker.cpp, include/utap/type.h, include/utap/typechecker.h",
              "   -- do not edit; regenerated (and re-proved against) on every run of the C14 / C10 checks.",
              "   kinds named in the source that no type node carries (mapped to TK.OTHER): %s" % (", ".join(em.unmodelled_kinds) or "none"),
              "   ignored (no influence on the verdict of the node): %s" % ("; ".join(em.ignored) or "none"),
              "   static helpers not translated (unused by the translated clauses): %s -/" % (", ".join(n for n, _ in skipped) or "none"),
              "import UtapModel.Model.Types", "", "set_option linter.unusedVariables false", "",
              "namespace UtapModel.TypeClauses", "open UtapModel.Types", ""]
    info["unmodelled_kinds"] = em.unmodelled_kinds
    info["ignored"] = em.ignored
    info["bin_ops"], info["un_ops"], info["q_ops"] = bin_ops, un_ops, q_ops
    text = "\n".join(header) + "\n" + "\n".join(out) + "\nend UtapModel.TypeClauses\n"
    return text, info


if __name__ == "__main__":
    t, inf = translate(sys.argv[1] if len(sys.argv) > 1 else "/repo")
    sys.stdout.write(t)
    sys.stderr.write(repr(inf) + "\n")
