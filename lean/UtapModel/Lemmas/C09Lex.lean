/-
C09 — lemmas about the lexer model (core Lean only): locality of a lexer step, skipping of trivia, fuel independence.
-/
import UtapModel.Model.C09Render
namespace UtapModel.C09

/-! ### spanLen / pre -/

theorem spanLen_le (p : Ch → Bool) (s : List Ch) : spanLen p s ≤ s.length := by
  induction s with
  | nil => simp [spanLen]
  | cons c cs ih => simp only [spanLen]; split <;> simp <;> omega

theorem spanLen_append (p : Ch → Bool) (w rest : List Ch) (h : stopsIn p w rest = true) :
    spanLen p (w ++ rest) = spanLen p w := by
  induction w with
  | nil =>
    simp [stopsIn, spanLen] at h
    cases rest with
    | nil => simp [spanLen]
    | cons d r => simp at h; simp [spanLen, h]
  | cons c cs ih =>
    simp only [List.cons_append, spanLen]
    by_cases hc : p c = true
    · simp only [hc, if_true]
      have : stopsIn p cs rest = true := by
        simp only [stopsIn, spanLen, hc, if_true, List.length_cons, Bool.or_eq_true, decide_eq_true_eq] at h ⊢
        rcases h with h | h
        · left; omega
        · right; exact h
      rw [ih this]
    · simp [hc]

theorem spanLen_all (p : Ch → Bool) (w : List Ch) (h : w.all p = true) : spanLen p w = w.length := by
  induction w with
  | nil => simp [spanLen]
  | cons c cs ih => simp at h; simp [spanLen, h.1, ih (by simpa using h.2)]

theorem spanLen_head_false (p : Ch → Bool) (c : Ch) (cs : List Ch) (h : p c = false) : spanLen p (c :: cs) = 0 := by
  simp [spanLen, h]

theorem pre_length (l s : List Ch) (h : pre l s = true) : l.length ≤ s.length := by
  induction l generalizing s with
  | nil => simp
  | cons a l ih =>
    cases s with
    | nil => simp [pre] at h
    | cons b s => simp [pre] at h; simp; exact ih s h.2

theorem pre_append_left (l w rest : List Ch) (h : pre l w = true) : pre l (w ++ rest) = true := by
  induction l generalizing w with
  | nil => simp [pre]
  | cons a l ih =>
    cases w with
    | nil => simp [pre] at h
    | cons b w => simp [pre] at h ⊢; exact ⟨h.1, ih w h.2⟩

/-- a literal that matches `w ++ d :: r` but not `w` alone has `w ++ [d]` as a prefix -/
theorem pre_extends (l w : List Ch) (d : Ch) (r : List Ch) (h : pre l (w ++ d :: r) = true) (hn : pre l w = false) :
    pre (w ++ [d]) l = true := by
  induction w generalizing l with
  | nil =>
    cases l with
    | nil => simp [pre] at hn
    | cons a l => simp [pre] at h ⊢; exact h.1.symm ▸ rfl
  | cons b w ih =>
    cases l with
    | nil => simp [pre] at hn
    | cons a l =>
      simp [pre] at h hn ⊢
      refine ⟨h.1.symm, ih l h.2 ?_⟩
      cases hp : pre l w with
      | false => rfl
      | true => exact absurd hp (by simpa using hn h.1)

theorem pre_self (w : List Ch) : pre w w = true := by
  induction w with
  | nil => rfl
  | cons a w ih => simp [pre, ih]

theorem pre_eq_of_length (l w : List Ch) (h : pre l w = true) (hl : l.length = w.length) : l = w := by
  induction l generalizing w with
  | nil => cases w <;> simp_all
  | cons a l ih =>
    cases w with
    | nil => simp at hl
    | cons b w => simp [pre] at h; simp at hl; rw [h.1, ih w h.2 hl]

/-! ### locality of a lexer step -/

theorem pre2_local (a b c0 : Ch) (w' rest : List Ch) :
    pre [a, b] (c0 :: w' ++ rest) = pre [a, b] (c0 :: w' ++ rest.take 1) := by
  cases w' with
  | nil => cases rest <;> simp [pre]
  | cons c1 w'' => simp [pre]

theorem pre2_of_local (a b c0 : Ch) (w' rest : List Ch) (h : pre [a, b] (c0 :: w' ++ rest.take 1) = false) :
    pre [a, b] (c0 :: w') = false := by
  cases w' with
  | nil => simp [pre]
  | cons c1 w'' => simpa [pre] using h

theorem fracLen_le (s : List Ch) : fracLen s ≤ s.length := by
  unfold fracLen
  split
  · rename_i r
    split
    · omega
    · have := spanLen_le isDigit r; simp; omega
  · omega

theorem fracLen_append (w1 rest : List Ch) (h : headNot rest (fun d => isDigit d || d == 46 || d == 101 || d == 69) = true) :
    fracLen (w1 ++ rest) = fracLen w1 := by
  have hd : ∀ x, stopsIn isDigit x rest = true := by
    intro x
    simp only [stopsIn, Bool.or_eq_true, decide_eq_true_eq]; right
    cases rest with
    | nil => rfl
    | cons d r => simp only [headNot, Bool.not_eq_true', Bool.or_eq_false_iff] at h; simp [h.1.1.1]
  cases w1 with
  | nil =>
    cases rest with
    | nil => rfl
    | cons d r =>
      simp only [headNot, Bool.not_eq_true', Bool.or_eq_false_iff] at h
      have : d ≠ 46 := by simpa using h.1.1.2
      simp only [List.nil_append]
      unfold fracLen
      split
      · rename_i heq; simp at heq; exact absurd heq.1 this
      · rfl
  | cons c w1' =>
    by_cases hc : c = 46
    · subst hc
      simp only [List.cons_append, fracLen, spanLen_append _ _ _ (hd w1')]
    · simp only [List.cons_append]
      unfold fracLen
      split
      · rename_i heq; simp at heq; exact absurd heq.1 hc
      · split
        · rename_i heq; simp at heq; exact absurd heq.1 hc
        · rfl

theorem expLen_single (c : Ch) : expLen [c] = 0 := by
  simp only [expLen]; split <;> rfl

theorem expLen_append (w2 rest : List Ch) (h : headNot rest (fun d => isDigit d || d == 46 || d == 101 || d == 69) = true)
    (hne : ∀ c, w2 = [c] → ¬ (c = 101 ∨ c = 69)) : expLen (w2 ++ rest) = expLen w2 := by
  have hd : ∀ x, stopsIn isDigit x rest = true := by
    intro x
    simp only [stopsIn, Bool.or_eq_true, decide_eq_true_eq]; right
    cases rest with
    | nil => rfl
    | cons d r => simp only [headNot, Bool.not_eq_true', Bool.or_eq_false_iff] at h; simp [h.1.1.1]
  cases w2 with
  | nil =>
    cases rest with
    | nil => rfl
    | cons d r =>
      simp only [headNot, Bool.not_eq_true', Bool.or_eq_false_iff] at h
      have h1 : (d == 101) = false := h.1.2
      have h2 : (d == 69) = false := h.2
      simp [expLen, h1, h2]
  | cons c w2' =>
    cases w2' with
    | nil =>
      have := hne c rfl
      have h1 : (c == 101) = false := by simp; intro e; exact this (Or.inl e)
      have h2 : (c == 69) = false := by simp; intro e; exact this (Or.inr e)
      simp [expLen, h1, h2]
    | cons sg w2'' =>
      simp only [List.cons_append, expLen]
      split
      · split
        · rw [spanLen_append _ _ _ (hd w2'')]
        · rw [← List.cons_append, spanLen_append _ _ _ (hd (sg :: w2''))]
      · rfl

theorem floatLen_append (w rest : List Ch) (hw : floatLen w = w.length) (hpos : w ≠ [])
    (h : headNot rest (fun d => isDigit d || d == 46 || d == 101 || d == 69) = true) :
    floatLen (w ++ rest) = floatLen w := by
  have hd : ∀ x, stopsIn isDigit x rest = true := by
    intro x
    simp only [stopsIn, Bool.or_eq_true, decide_eq_true_eq]; right
    cases rest with
    | nil => rfl
    | cons d r => simp only [headNot, Bool.not_eq_true', Bool.or_eq_false_iff] at h; simp [h.1.1.1]
  have hlen : 0 < w.length := List.length_pos_iff.mpr hpos
  have hd0 : spanLen isDigit w ≠ 0 := by
    intro e
    simp only [floatLen, e, if_true] at hw
    omega
  have hdle := spanLen_le isDigit w
  have e1 : spanLen isDigit (w ++ rest) = spanLen isDigit w := spanLen_append _ _ _ (hd w)
  have hfle := fracLen_le (w.drop (spanLen isDigit w))
  simp only [List.length_drop] at hfle
  have hw' := hw
  simp only [floatLen, hd0, if_false] at hw'
  simp only [floatLen, e1, hd0, if_false]
  rw [List.drop_append_of_le_length hdle, fracLen_append _ _ h,
      List.drop_append_of_le_length (by omega)]
  rw [expLen_append _ _ h]
  intro c hc hce
  rw [hc, expLen_single] at hw'
  have : (w.drop (spanLen isDigit w + fracLen (w.drop (spanLen isDigit w)))).length = 1 := by rw [hc]; rfl
  simp only [List.length_drop] at this
  omega

theorem matchLen_local (rules : List Rule) (w rest : List Ch) (h : Closed rules w rest = true) :
    ∀ r ∈ rules, matchLen r (w ++ rest) = matchLen r w := by
  cases w with
  | nil => simp [Closed] at h
  | cons c0 w' =>
    simp only [Closed, Bool.and_eq_true, bne_iff_ne, ne_eq, Bool.not_eq_true', Bool.or_eq_true] at h
    obtain ⟨⟨⟨⟨⟨⟨⟨⟨⟨⟨h92, h34⟩, hbl⟩, h10⟩, h13⟩, hsl⟩, hst⟩, hid⟩, hnum⟩, hfl⟩, hlit⟩ := h
    intro r hr
    have litcase : ∀ l, (∀ d, rest.head? = some d → pre (c0 :: w' ++ [d]) l = false) →
        (if pre l (c0 :: w' ++ rest) = true then l.length else 0) = (if pre l (c0 :: w') = true then l.length else 0) := by
      intro l hl
      cases hp : pre l (c0 :: w') with
      | true => rw [pre_append_left _ _ rest hp]
      | false =>
        cases rest with
        | nil => simp [hp]
        | cons d r' =>
          cases hq : pre l (c0 :: w' ++ d :: r') with
          | false => simp
          | true =>
            have := pre_extends l (c0 :: w') d r' hq hp
            rw [hl d rfl] at this
            exact absurd this (by simp)
    have hlit' : ∀ l t, (r = .lit l t ∨ r = .litOld l t) → ∀ d, rest.head? = some d → pre (c0 :: w' ++ [d]) l = false := by
      intro l t hrl d hd
      cases rest with
      | nil => simp at hd
      | cons d' r' =>
        simp at hd; subst hd
        simp only [noLit, List.all_eq_true] at hlit
        have := hlit r hr
        rcases hrl with rfl | rfl <;> simpa using this
    cases r with
    | lit l t => simp only [matchLen]; exact litcase l (hlit' l t (Or.inl rfl))
    | litOld l t => simp only [matchLen]; exact litcase l (hlit' l t (Or.inr rfl))
    | cont =>
      have : c0 ≠ 92 := h92
      simp only [matchLen, List.cons_append]
      split <;> rename_i heq
      · simp at heq; exact absurd heq.1 this
      · split <;> rename_i heq2
        · simp at heq2; exact absurd heq2.1 this
        · rfl
    | lineComment =>
      simp only [matchLen]
      rw [pre2_local, hsl, pre2_of_local _ _ _ _ _ hsl]; simp
    | blanks =>
      simp only [matchLen, List.cons_append]
      rw [spanLen_head_false _ _ _ hbl, spanLen_head_false _ _ _ hbl]
    | commentOpen =>
      simp only [matchLen]
      rw [pre2_local, hst, pre2_of_local _ _ _ _ _ hst]
    | newlines =>
      simp only [matchLen, List.cons_append]
      have : (fun c : Ch => c == 10) c0 = false := by simpa using h10
      rw [spanLen_head_false (fun c : Ch => c == 10) c0 _ this, spanLen_head_false (fun c : Ch => c == 10) c0 _ this]
    | crlf =>
      have : c0 ≠ 13 := h13
      simp only [matchLen, List.cons_append]
      unfold crlfLen
      split <;> rename_i heq
      · simp at heq; exact absurd heq.1 this
      · split <;> rename_i heq2
        · simp at heq2; exact absurd heq2.1 this
        · rfl
    | ident =>
      simp only [matchLen, List.cons_append]
      cases ha : isAlpha c0 with
      | false => simp
      | true =>
        simp only [if_true]
        rcases hid with hid | hid
        · simp [ha] at hid
        · rw [spanLen_append _ _ _ hid]
    | num =>
      simp only [matchLen]
      exact spanLen_append _ _ _ hnum
    | float =>
      simp only [matchLen, floatLen]
      cases hd : isDigit c0 with
      | false =>
        rw [List.cons_append, spanLen_head_false _ _ _ hd, spanLen_head_false _ _ _ hd]
        simp
      | true =>
        rcases hfl with hfl | hfl
        · simp [hd] at hfl
        · obtain ⟨hall, hhead⟩ := hfl
          have hw : floatLen (c0 :: w') = (c0 :: w').length := by simpa using hall
          have := floatLen_append (c0 :: w') rest hw (by simp) hhead
          simpa [floatLen] using this
    | anyChar => simp [matchLen]
    | string =>
      have : c0 ≠ 34 := h34
      simp only [matchLen, List.cons_append]
      split <;> rename_i heq
      · simp at heq; exact absurd heq.1 this
      · split <;> rename_i heq2
        · simp at heq2; exact absurd heq2.1 this
        · rfl

/-! ### `best` -/

theorem maxMatch_congr (rules : List Rule) (s s' : List Ch) (h : ∀ r ∈ rules, matchLen r s = matchLen r s') :
    maxMatch rules s = maxMatch rules s' := by
  induction rules with
  | nil => rfl
  | cons r rs ih =>
    simp only [maxMatch, List.foldr_cons] at ih ⊢
    rw [h r (by simp), ih (fun r hr => h r (by simp [hr]))]

theorem find_congr {α} (l : List α) (p q : α → Bool) (h : ∀ x ∈ l, p x = q x) : l.find? p = l.find? q := by
  induction l with
  | nil => rfl
  | cons a l ih =>
    simp only [List.find?_cons, h a (by simp)]
    rw [ih (fun x hx => h x (by simp [hx]))]

theorem best_congr (rules : List Rule) (s s' : List Ch) (h : ∀ r ∈ rules, matchLen r s = matchLen r s') :
    best rules s = best rules s' := by
  simp only [best, maxMatch_congr rules s s' h]
  rw [find_congr rules _ (fun r => matchLen r s' == maxMatch rules s') (fun r hr => by rw [h r hr])]

theorem maxMatch_ge (rules : List Rule) (s : List Ch) : ∀ r ∈ rules, matchLen r s ≤ maxMatch rules s := by
  induction rules with
  | nil => simp
  | cons a rs ih =>
    intro r hr
    simp only [maxMatch, List.foldr_cons]
    rcases List.mem_cons.mp hr with rfl | hr
    · exact Nat.le_max_left _ _
    · exact Nat.le_trans (ih r hr) (Nat.le_max_right _ _)

theorem maxMatch_le (rules : List Rule) (s : List Ch) (m : Nat) (h : ∀ r ∈ rules, matchLen r s ≤ m) : maxMatch rules s ≤ m := by
  induction rules with
  | nil => simp [maxMatch]
  | cons a rs ih =>
    simp only [maxMatch, List.foldr_cons]
    exact Nat.max_le.mpr ⟨h a (by simp), ih (fun r hr => h r (by simp [hr]))⟩

theorem maxMatch_eq (rules : List Rule) (s : List Ch) (m : Nat) (r0 : Rule) (hr0 : r0 ∈ rules) (hm : matchLen r0 s = m)
    (h : ∀ r ∈ rules, matchLen r s ≤ m) : maxMatch rules s = m :=
  Nat.le_antisymm (maxMatch_le rules s m h) (hm ▸ maxMatch_ge rules s r0 hr0)

/-- the first rule that reaches the maximum wins -/
theorem best_first (pre' post : List Rule) (r0 : Rule) (s : List Ch) (m : Nat) (hm : matchLen r0 s = m) (hpos : 0 < m)
    (hpre : ∀ r ∈ pre', matchLen r s < m) (hpost : ∀ r ∈ post, matchLen r s ≤ m) :
    best (pre' ++ r0 :: post) s = some (r0, m) := by
  have hmax : maxMatch (pre' ++ r0 :: post) s = m := by
    apply maxMatch_eq _ _ _ r0 (by simp) hm
    intro r hr
    rcases List.mem_append.mp hr with h | h
    · exact Nat.le_of_lt (hpre r h)
    · rcases List.mem_cons.mp h with rfl | h
      · exact Nat.le_of_eq hm
      · exact hpost r h
  simp only [best, hmax]
  have : m ≠ 0 := by omega
  simp only [this, if_false]
  rw [List.find?_append]
  have h1 : List.find? (fun r => matchLen r s == m) pre' = none := by
    rw [List.find?_eq_none]
    intro r hr
    have := hpre r hr
    simp; omega
  simp [h1, hm]

/-- ... in particular when no other rule reaches it -/
theorem best_unique (rules : List Rule) (r0 : Rule) (s : List Ch) (m : Nat) (hr0 : r0 ∈ rules) (hm : matchLen r0 s = m)
    (hpos : 0 < m) (hle : ∀ r ∈ rules, matchLen r s ≤ m) (huniq : ∀ r ∈ rules, matchLen r s = m → r = r0) :
    best rules s = some (r0, m) := by
  have hmax : maxMatch rules s = m := maxMatch_eq _ _ _ r0 hr0 hm hle
  simp only [best, hmax]
  have : m ≠ 0 := by omega
  simp only [this, if_false]
  cases hf : List.find? (fun r => matchLen r s == m) rules with
  | none =>
    rw [List.find?_eq_none] at hf
    exact absurd (hf r0 hr0) (by simp [hm])
  | some r =>
    have h1 := List.find?_some hf
    have h2 := List.mem_of_find?_eq_some hf
    simp at h1
    simp [huniq r h2 h1]

theorem best_pos (rules : List Rule) (s : List Ch) (r : Rule) (n : Nat) (h : best rules s = some (r, n)) : 0 < n := by
  simp only [best] at h
  split at h
  · simp at h
  · rename_i hne
    cases hf : List.find? (fun r => matchLen r s == maxMatch rules s) rules with
    | none => simp [hf] at h
    | some r' => simp [hf] at h; omega

/-! ### fuel -/

theorem commentStep_nil_iff (st : Bool) (s : List Ch) : commentStep st s = .eof ↔ s = [] := by
  cases s with
  | nil => simp [commentStep]
  | cons c cs =>
    simp only [commentStep]
    split <;> simp
    split <;> simp

theorem lexGo_fuel (cfg : Cfg) : ∀ (f f' : Nat) (b : Bool) (n : Nat) (s : List Ch),
    s.length < f → s.length < f' → lexGo cfg f b n s = lexGo cfg f' b n s := by
  intro f
  induction f with
  | zero => intro f' b n s h; omega
  | succ f ih =>
    intro f' b n s h h'
    cases f' with
    | zero => omega
    | succ f' =>
      cases b with
      | true =>
        simp only [lexGo]
        cases hc : commentStep cfg.expectStops s with
        | eof => rfl
        | close =>
          have hs : s ≠ [] := fun e => by simp [e, commentStep] at hc
          have : (s.drop 2).length < s.length := by
            cases s with
            | nil => exact absurd rfl hs
            | cons c cs => simp; omega
          simp only []
          exact ih f' false n _ (by omega) (by omega)
        | expect k =>
          have hs : s ≠ [] := fun e => by simp [e, commentStep] at hc
          have hk : 0 < k := by
            cases s with
            | nil => exact absurd rfl hs
            | cons c cs =>
              simp only [commentStep] at hc
              split at hc
              · simp at hc; omega
              · split at hc <;> simp at hc
          have : (s.drop k).length < s.length := by
            cases s with
            | nil => exact absurd rfl hs
            | cons c cs => simp; omega
          simp only []
          rw [ih f' true (n + 1) _ (by omega) (by omega)]
        | skip =>
          have hs : s ≠ [] := fun e => by simp [e, commentStep] at hc
          have : (s.drop 1).length < s.length := by
            cases s with
            | nil => exact absurd rfl hs
            | cons c cs => simp
          simp only []
          exact ih f' true n _ (by omega) (by omega)
      | false =>
        cases s with
        | nil => simp [lexGo]
        | cons c cs =>
          simp only [lexGo]
          cases hb : best cfg.rules (c :: cs) with
          | none => rfl
          | some rl =>
            obtain ⟨r, len⟩ := rl
            have hpos := best_pos _ _ _ _ hb
            have : ((c :: cs).drop len).length < (c :: cs).length := by simp; omega
            simp only []
            rw [ih f' _ _ _ (by omega) (by omega)]

/-- one INITIAL-state step over a lexeme `w` that is `Closed` in its context -/
theorem lexGo_lexeme (cfg : Cfg) (w rest : List Ch) (r : Rule) (f n : Nat)
    (hc : Closed cfg.rules w rest = true) (hb : best cfg.rules w = some (r, w.length)) :
    lexGo cfg (f + 1) false n (w ++ rest) =
      (action cfg n r w).1 ++ lexGo cfg f (action cfg n r w).2 (n + (action cfg n r w).1.length) rest := by
  have hb' : best cfg.rules (w ++ rest) = some (r, w.length) := by
    rw [best_congr _ _ _ (matchLen_local _ _ _ hc)]; exact hb
  cases w with
  | nil => simp [Closed] at hc
  | cons c0 w' =>
    simp only [List.cons_append, lexGo]
    simp only [List.cons_append] at hb'
    rw [hb']
    simp only []
    have e1 : List.take (c0 :: w').length (c0 :: (w' ++ rest)) = c0 :: w' := by
      rw [← List.cons_append, List.take_left]
    have e2 : List.drop (c0 :: w').length (c0 :: (w' ++ rest)) = rest := by
      rw [← List.cons_append, List.drop_left]
    rw [e1, e2]

/-! ### trivia -/

/-- can rule `r` match an input that starts with character `c` at all? -/
def headOK (r : Rule) (c : Ch) : Bool :=
  match r with
  | .lit l _ => l.head? == some c
  | .litOld l _ => l.head? == some c
  | .cont => c == 92
  | .lineComment => c == 47
  | .blanks => isBlank c
  | .commentOpen => c == 47
  | .newlines => c == 10
  | .crlf => c == 13
  | .ident => isAlpha c
  | .num => isDigit c
  | .float => isDigit c
  | .anyChar => c != 10
  | .string => c == 34

theorem matchLen_zero_of_head (r : Rule) (c : Ch) (s : List Ch) (h : headOK r c = false) : matchLen r (c :: s) = 0 := by
  cases r with
  | lit l t =>
    cases l with
    | nil => simp [matchLen]
    | cons a l => simp [headOK] at h; simp [matchLen, pre, h]
  | litOld l t =>
    cases l with
    | nil => simp [matchLen]
    | cons a l => simp [headOK] at h; simp [matchLen, pre, h]
  | cont =>
    simp [headOK] at h
    simp only [matchLen]
    split
    · rename_i heq; simp at heq; exact absurd heq.1 h
    · rfl
  | lineComment => simp [headOK] at h; simp [matchLen, pre]; intro e; exact absurd e.symm h
  | blanks => simp [headOK] at h; simp [matchLen, spanLen, h]
  | commentOpen => simp [headOK] at h; simp [matchLen, pre]; intro e; exact absurd e.symm h
  | newlines => simp [headOK] at h; simp [matchLen, spanLen, h]
  | crlf =>
    simp [headOK] at h
    simp only [matchLen]; unfold crlfLen
    split
    · rename_i heq; simp at heq; exact absurd heq.1 h
    · rfl
  | ident => simp [headOK] at h; simp [matchLen, h]
  | num => simp [headOK] at h; simp [matchLen, spanLen, h]
  | float => simp [headOK] at h; simp [matchLen, floatLen, spanLen, h]
  | anyChar => simp [headOK] at h; simp [matchLen, h]
  | string =>
    simp [headOK] at h
    simp only [matchLen]
    split
    · rename_i heq; simp at heq; exact absurd heq.1 h
    · rfl

def isLit : Rule → Option (List Ch)
  | .lit l _ => some l
  | .litOld l _ => some l
  | _ => none

/-- Facts about the rule table the trivia lemmas need (decidable; `decide` for the generated table):
    no literal starts with a blank / newline / CR, none starts with `//` or `/*`, a literal starting with a backslash
    does not continue with a blank or newline, `[ \t]+` is listed before `.`, and the special rules are present. -/
def RulesWF (rules : List Rule) : Bool :=
  rules.all (fun r => match isLit r with
    | none => true
    | some l =>
      (match l with
       | [] => false
       | c :: _ => !(isBlank c) && c != 10 && c != 13) &&
      !(pre [47, 47] l) && !(pre [47, 42] l) &&
      (match l with
       | 92 :: c1 :: _ => !(isBlank c1) && c1 != 10
       | _ => true)) &&
  (rules.takeWhile (fun r => r != .blanks)).all (fun r => r != .anyChar) &&
  rules.contains .blanks && rules.contains .newlines && rules.contains .lineComment && rules.contains .commentOpen &&
  rules.contains .cont

theorem wf_lit (rules : List Rule) (h : RulesWF rules = true) (r : Rule) (hr : r ∈ rules) (l : List Ch) (hl : isLit r = some l) :
    (∃ c l', l = c :: l' ∧ isBlank c = false ∧ c ≠ 10 ∧ c ≠ 13) ∧ pre [47, 47] l = false ∧ pre [47, 42] l = false ∧
    (∀ c1 l', l = 92 :: c1 :: l' → isBlank c1 = false ∧ c1 ≠ 10) := by
  simp only [RulesWF, Bool.and_eq_true, List.all_eq_true] at h
  have := h.1.1.1.1.1.1 r hr
  rw [hl] at this
  simp only [Bool.and_eq_true, Bool.not_eq_true'] at this
  obtain ⟨⟨⟨h1, h2⟩, h3⟩, h4⟩ := this
  refine ⟨?_, h2, h3, ?_⟩
  · cases l with
    | nil => simp at h1
    | cons c l' => simp at h1; exact ⟨c, l', rfl, h1.1.1, h1.1.2, h1.2⟩
  · intro c1 l' e
    subst e
    simpa using h4

theorem split_at_mem (a : Rule) (l : List Rule) (h : a ∈ l) :
    l = l.takeWhile (fun r => r != a) ++ a :: (l.dropWhile (fun r => r != a)).tail := by
  induction l with
  | nil => simp at h
  | cons x xs ih =>
    by_cases hx : x = a
    · subst hx; simp
    · have hne : (x != a) = true := by simpa using hx
      have hm : a ∈ xs := by
        rcases List.mem_cons.mp h with e | e
        · exact absurd e.symm hx
        · exact e
      simp only [List.takeWhile_cons, List.dropWhile_cons, hne, if_true, List.cons_append]
      rw [← ih hm]

theorem mem_takeWhile_p {α} (p : α → Bool) (l : List α) (x : α) (h : x ∈ l.takeWhile p) : p x = true := by
  induction l with
  | nil => simp at h
  | cons a l ih =>
    simp only [List.takeWhile_cons] at h
    split at h
    · rcases List.mem_cons.mp h with e | e
      · subst e; assumption
      · exact ih e
    · simp at h

theorem split_at_blanks (rules : List Rule) (h : RulesWF rules = true) :
    ∃ pre' post, rules = pre' ++ Rule.blanks :: post ∧ (∀ r ∈ pre', r ≠ .anyChar) ∧ (∀ r ∈ pre', r ≠ .blanks) := by
  simp only [RulesWF, Bool.and_eq_true, List.all_eq_true] at h
  have hmem : Rule.blanks ∈ rules := by simpa using h.1.1.1.1.2
  have hpre := h.1.1.1.1.1.2
  refine ⟨_, _, split_at_mem _ _ hmem, fun r hr => by simpa using hpre r hr, fun r hr => ?_⟩
  have := mem_takeWhile_p _ _ _ hr
  simpa using this

theorem wf_mem (rules : List Rule) (h : RulesWF rules = true) :
    Rule.blanks ∈ rules ∧ Rule.newlines ∈ rules ∧ Rule.lineComment ∈ rules ∧ Rule.commentOpen ∈ rules ∧ Rule.cont ∈ rules := by
  simp only [RulesWF, Bool.and_eq_true] at h
  refine ⟨by simpa using h.1.1.1.1.2, by simpa using h.1.1.1.2, by simpa using h.1.1.2, by simpa using h.1.2, by simpa using h.2⟩

theorem best_by_head (rules : List Rule) (r0 : Rule) (c : Ch) (s' : List Ch) (m : Nat) (hr0 : r0 ∈ rules)
    (hm : matchLen r0 (c :: s') = m) (hpos : 0 < m)
    (h : ∀ r ∈ rules, headOK r c = true → r ≠ r0 → matchLen r (c :: s') < m) : best rules (c :: s') = some (r0, m) := by
  apply best_unique rules r0 _ m hr0 hm hpos
  · intro r hr
    by_cases e : r = r0
    · subst e; omega
    · cases hh : headOK r c with
      | false => rw [matchLen_zero_of_head r c s' hh]; omega
      | true => exact Nat.le_of_lt (h r hr hh e)
  · intro r hr hrm
    by_cases e : r = r0
    · exact e
    · cases hh : headOK r c with
      | false => rw [matchLen_zero_of_head r c s' hh] at hrm; omega
      | true => have := h r hr hh e; omega

/-- a literal rule cannot match an input starting with a blank, a newline or a carriage return -/
theorem lit_head_blank (rules : List Rule) (h : RulesWF rules = true) (r : Rule) (hr : r ∈ rules) (c : Ch)
    (hc : isBlank c = true ∨ c = 10 ∨ c = 13) (l : List Ch) (hl : isLit r = some l) : l.head? ≠ some c := by
  obtain ⟨⟨c', l', e, h1, h2, h3⟩, _⟩ := wf_lit rules h r hr l hl
  subst e
  simp only [List.head?_cons, ne_eq, Option.some.injEq]
  intro e; subst e
  rcases hc with hc | hc | hc
  · rw [hc] at h1; exact absurd h1 (by simp)
  · exact h2 hc
  · exact h3 hc

/-- trivia item 1: a maximal run of blanks -/
theorem best_blanks (rules : List Rule) (h : RulesWF rules = true) (c : Ch) (b rest : List Ch) (hc : isBlank c = true)
    (hb : b.all isBlank = true) (hrest : headNot rest isBlank = true) :
    best rules (c :: b ++ rest) = some (.blanks, (c :: b).length) := by
  obtain ⟨pre', post, e, hany, hbl⟩ := split_at_blanks rules h
  have hmB : matchLen .blanks (c :: b ++ rest) = (c :: b).length := by
    simp only [matchLen]
    have hall : (c :: b).all isBlank = true := by simp [hc]; simpa using hb
    rw [spanLen_append _ _ _ (by
      simp only [stopsIn, Bool.or_eq_true, decide_eq_true_eq]; right
      cases rest with
      | nil => rfl
      | cons d r => simpa [headNot] using hrest), spanLen_all _ _ hall]
  have hzero : ∀ r ∈ rules, r ≠ .blanks → r ≠ .anyChar → matchLen r (c :: b ++ rest) = 0 := by
    intro r hr n1 n2
    apply matchLen_zero_of_head
    have hnb : c ≠ 92 ∧ c ≠ 47 ∧ c ≠ 10 ∧ c ≠ 13 ∧ c ≠ 34 ∧ isAlpha c = false ∧ isDigit c = false := by
      simp only [isBlank, Bool.or_eq_true, beq_iff_eq] at hc
      rcases hc with rfl | rfl <;> decide
    cases r with
    | lit l t =>
      have := lit_head_blank rules h _ hr c (Or.inl hc) l rfl
      simp only [headOK]; simpa using this
    | litOld l t =>
      have := lit_head_blank rules h _ hr c (Or.inl hc) l rfl
      simp only [headOK]; simpa using this
    | blanks => exact absurd rfl n1
    | anyChar => exact absurd rfl n2
    | cont => simp [headOK, hnb.1]
    | lineComment => simp [headOK, hnb.2.1]
    | commentOpen => simp [headOK, hnb.2.1]
    | newlines => simp [headOK, hnb.2.2.1]
    | crlf => simp [headOK, hnb.2.2.2.1]
    | ident => simp [headOK, hnb.2.2.2.2.2.1]
    | num => simp [headOK, hnb.2.2.2.2.2.2]
    | float => simp [headOK, hnb.2.2.2.2.2.2]
    | string => simp [headOK, hnb.2.2.2.2.1]
  rw [e] at hzero ⊢
  apply best_first pre' post .blanks _ _ hmB (by simp)
  · intro r hr
    rw [hzero r (by simp [hr]) (hbl r hr) (hany r hr)]; simp
  · intro r hr
    by_cases e1 : r = .blanks
    · subst e1; omega
    · by_cases e2 : r = .anyChar
      · subst e2; simp [matchLen]; split <;> omega
      · rw [hzero r (by simp [hr]) e1 e2]; omega

/-- trivia item 2: a maximal run of newlines -/
theorem best_newlines (rules : List Rule) (h : RulesWF rules = true) (nl rest : List Ch)
    (hb : nl.all (fun c => c == 10) = true) (hrest : headNot rest (fun c => c == 10) = true) :
    best rules (10 :: nl ++ rest) = some (.newlines, (10 :: nl).length) := by
  apply best_by_head rules .newlines 10 (nl ++ rest) _ (wf_mem rules h).2.1
  · simp only [matchLen]
    have hall : ((10 : Ch) :: nl).all (fun c => c == 10) = true := by simp; simpa using hb
    rw [← List.cons_append, spanLen_append _ _ _ (by
      simp only [stopsIn, Bool.or_eq_true, decide_eq_true_eq]; right
      cases rest with
      | nil => rfl
      | cons d r => simpa [headNot] using hrest), spanLen_all _ _ hall]
  · simp
  · intro r hr hh ne
    cases r with
    | lit l t => exact absurd (by simpa [headOK] using hh) (lit_head_blank rules h _ hr 10 (Or.inr (Or.inl rfl)) l rfl)
    | litOld l t => exact absurd (by simpa [headOK] using hh) (lit_head_blank rules h _ hr 10 (Or.inr (Or.inl rfl)) l rfl)
    | newlines => exact absurd rfl ne
    | _ => simp [headOK, isBlank, isAlpha, isDigit] at hh

theorem lit_slash (rules : List Rule) (h : RulesWF rules = true) (r : Rule) (hr : r ∈ rules) (l : List Ch) (hl : isLit r = some l)
    (c1 : Ch) (hc1 : c1 = 47 ∨ c1 = 42) (s : List Ch) : (if pre l (47 :: c1 :: s) = true then l.length else 0) < 2 := by
  obtain ⟨_, h1, h2, _⟩ := wf_lit rules h r hr l hl
  cases l with
  | nil => simp
  | cons a l' =>
    cases l' with
    | nil => split <;> simp
    | cons b l'' =>
      have : pre (a :: b :: l'') (47 :: c1 :: s) = false := by
        cases hp : pre (a :: b :: l'') (47 :: c1 :: s) with
        | false => rfl
        | true =>
          simp [pre] at hp
          obtain ⟨ha, hb, _⟩ := hp
          subst ha; subst hb
          rcases hc1 with rfl | rfl
          · simp [pre] at h1
          · simp [pre] at h2
      simp [this]

/-- trivia item 3: a `//` comment up to (not including) the end of the line -/
theorem best_lineComment (rules : List Rule) (h : RulesWF rules = true) (body rest : List Ch)
    (hb : body.all (fun c => c != 10) = true) (hrest : headNot rest (fun c => c != 10) = true) :
    best rules (47 :: 47 :: body ++ rest) = some (.lineComment, body.length + 2) := by
  apply best_by_head rules .lineComment 47 (47 :: body ++ rest) _ (wf_mem rules h).2.2.1
  · have hp : pre [47, 47] (47 :: (47 :: body ++ rest)) = true := by simp [pre]
    simp only [matchLen, hp, if_true]
    simp only [List.cons_append, List.drop_succ_cons, List.drop_zero]
    rw [spanLen_append _ _ _ (by
      simp only [stopsIn, Bool.or_eq_true, decide_eq_true_eq]; right
      cases rest with
      | nil => rfl
      | cons d r => simpa [headNot] using hrest), spanLen_all _ _ hb]
  · omega
  · intro r hr hh ne
    cases r with
    | lit l t =>
      have := lit_slash rules h _ hr l rfl 47 (Or.inl rfl) (body ++ rest)
      simp only [matchLen, List.cons_append]; omega
    | litOld l t =>
      have := lit_slash rules h _ hr l rfl 47 (Or.inl rfl) (body ++ rest)
      simp only [matchLen, List.cons_append]; omega
    | lineComment => exact absurd rfl ne
    | commentOpen => simp [matchLen, pre]
    | anyChar => simp [matchLen]
    | _ => simp [headOK, isBlank, isAlpha, isDigit] at hh

/-- trivia item 4: `/*` opens the comment state -/
theorem best_commentOpen (rules : List Rule) (h : RulesWF rules = true) (rest : List Ch) :
    best rules (47 :: 42 :: rest) = some (.commentOpen, 2) := by
  apply best_by_head rules .commentOpen 47 (42 :: rest) _ (wf_mem rules h).2.2.2.1
  · simp [matchLen, pre]
  · omega
  · intro r hr hh ne
    cases r with
    | lit l t => exact lit_slash rules h _ hr l rfl 42 (Or.inr rfl) rest
    | litOld l t => exact lit_slash rules h _ hr l rfl 42 (Or.inr rfl) rest
    | commentOpen => exact absurd rfl ne
    | lineComment => simp [matchLen, pre]
    | anyChar => simp [matchLen]
    | _ => simp [headOK, isBlank, isAlpha, isDigit] at hh

/-- trivia item 5: backslash, blanks, newline -/
theorem best_cont (rules : List Rule) (h : RulesWF rules = true) (b rest : List Ch) (hb : b.all isBlank = true) :
    best rules (92 :: b ++ 10 :: rest) = some (.cont, b.length + 2) := by
  have hsp : spanLen isBlank (b ++ 10 :: rest) = b.length := by
    rw [spanLen_append _ _ _ (by simp [stopsIn, isBlank]), spanLen_all _ _ hb]
  apply best_by_head rules .cont 92 (b ++ 10 :: rest) _ (wf_mem rules h).2.2.2.2
  · simp only [matchLen, hsp, List.drop_left, pre, beq_self_eq_true, Bool.and_self, if_true]
  · omega
  · intro r hr hh ne
    have litc : ∀ l, isLit r = some l → (if pre l (92 :: (b ++ 10 :: rest)) = true then l.length else 0) < b.length + 2 := by
      intro l hl
      obtain ⟨_, _, _, h4⟩ := wf_lit rules h r hr l hl
      cases l with
      | nil => simp
      | cons a l' =>
        cases l' with
        | nil => split <;> simp
        | cons c1 l'' =>
          have : pre (a :: c1 :: l'') (92 :: (b ++ 10 :: rest)) = false := by
            cases hp : pre (a :: c1 :: l'') (92 :: (b ++ 10 :: rest)) with
            | false => rfl
            | true =>
              simp only [pre, Bool.and_eq_true, beq_iff_eq] at hp
              obtain ⟨ha, hp2⟩ := hp
              subst ha
              obtain ⟨hb1, hb2⟩ := h4 c1 l'' rfl
              cases b with
              | nil => simp [pre] at hp2; exact absurd hp2.1 hb2
              | cons b0 b' =>
                simp [pre] at hp2 hb
                rw [hp2.1, hb.1] at hb1; exact absurd hb1 (by simp)
          simp [this]
    cases r with
    | lit l t => simp only [matchLen]; exact litc l rfl
    | litOld l t => simp only [matchLen]; exact litc l rfl
    | cont => exact absurd rfl ne
    | anyChar => simp [matchLen]
    | _ => simp [headOK, isBlank, isAlpha, isDigit] at hh

/-! ### skipping trivia -/

theorem pre_mem (a l : List Ch) (h : pre a l = true) : ∀ c ∈ a, c ∈ l := by
  induction a generalizing l with
  | nil => simp
  | cons x a ih =>
    cases l with
    | nil => simp [pre] at h
    | cons y l =>
      simp [pre] at h
      intro c hc
      rcases List.mem_cons.mp hc with e | e
      · subst e; simp [h.1]
      · exact List.mem_cons_of_mem _ (ih l h.2 c e)

theorem lexGo_true_succ (cfg : Cfg) (f n : Nat) (s : List Ch) :
    lexGo cfg (f + 1) true n s =
      match commentStep cfg.expectStops s with
      | .eof => [.commentNotClosed]
      | .close => lexGo cfg f false n (s.drop 2)
      | .expect k => .expect ((s.take k).drop 7) :: lexGo cfg f true (n + 1) (s.drop k)
      | .skip => lexGo cfg f true n (s.drop 1) := by
  simp only [lexGo]; rfl

theorem lexGo_false_cons (cfg : Cfg) (f n : Nat) (c : Ch) (s : List Ch) :
    lexGo cfg (f + 1) false n (c :: s) =
      match best cfg.rules (c :: s) with
      | none => []
      | some (r, len) =>
        (action cfg n r ((c :: s).take len)).1 ++
          lexGo cfg f (action cfg n r ((c :: s).take len)).2 (n + (action cfg n r ((c :: s).take len)).1.length) ((c :: s).drop len) := by
  simp only [lexGo]; rfl

/-- inside a block comment whose text satisfies `bodyOK`, the lexer walks to the closing `*/` and resumes after it -/
theorem lexGo_comment (cfg : Cfg) : ∀ (body after : List Ch) (f n : Nat), bodyOK body = true →
    (body ++ 42 :: 47 :: after).length < f → lexGo cfg f true n (body ++ 42 :: 47 :: after) = lexGo cfg f false n after := by
  intro body
  induction body with
  | nil =>
    intro after f n _ hf
    cases f with
    | zero => omega
    | succ f =>
      have hc : commentStep cfg.expectStops (42 :: 47 :: after) = .close := by
        simp [commentStep, expectAt, expectLit, pre]
      rw [List.nil_append, lexGo_true_succ, hc]
      simp only [List.drop_succ_cons, List.drop_zero]
      exact lexGo_fuel cfg _ _ _ _ _ (by simp at hf; omega) (by simp at hf; omega)
  | cons c b ih =>
    intro after f n hok hf
    cases f with
    | zero => omega
    | succ f =>
      simp only [bodyOK, Bool.and_eq_true, Bool.not_eq_true'] at hok
      obtain ⟨⟨he, hs⟩, hb⟩ := hok
      have hc : commentStep cfg.expectStops (c :: b ++ 42 :: 47 :: after) = .skip := by
        have h1 : expectAt (c :: b ++ 42 :: 47 :: after) = false := by
          cases hp : expectAt (c :: b ++ 42 :: 47 :: after) with
          | false => rfl
          | true =>
            simp only [expectAt] at hp
            have := pre_extends expectLit (c :: b) 42 (47 :: after) hp he
            have hm := pre_mem _ _ this 42 (by simp)
            simp [expectLit] at hm
        have h2 : pre [42, 47] (c :: b ++ 42 :: 47 :: after) = false := by
          rw [pre2_local]; simpa using hs
        simp only [List.cons_append] at h1 h2
        simp [commentStep, h1, h2]
      rw [lexGo_true_succ, hc]
      simp only [List.cons_append, List.drop_succ_cons, List.drop_zero]
      rw [ih after f n hb (by simp at hf ⊢; omega)]
      exact lexGo_fuel cfg _ _ _ _ _ (by simp at hf; omega) (by simp at hf; omega)

/-- one INITIAL-state step over a lexeme whose action returns nothing -/
theorem lexGo_skip1 (cfg : Cfg) (x after : List Ch) (r : Rule) (f n : Nat) (hx : x ≠ [])
    (hb : best cfg.rules (x ++ after) = some (r, x.length)) (ha : action cfg n r x = ([], false))
    (hf : (x ++ after).length < f) : lexGo cfg f false n (x ++ after) = lexGo cfg f false n after := by
  cases f with
  | zero => omega
  | succ f =>
    cases x with
    | nil => exact absurd rfl hx
    | cons c x' =>
      rw [List.cons_append, lexGo_false_cons]
      simp only [List.cons_append] at hb
      rw [hb]
      simp only []
      have e1 : List.take (c :: x').length (c :: (x' ++ after)) = c :: x' := by
        rw [← List.cons_append, List.take_left]
      have e2 : List.drop (c :: x').length (c :: (x' ++ after)) = after := by
        rw [← List.cons_append, List.drop_left]
      rw [e1, e2, ha]
      simp only [List.nil_append, List.length_nil, Nat.add_zero]
      exact lexGo_fuel cfg _ _ _ _ _ (by simp at hf; omega) (by simp at hf; omega)

def NonProperty (cfg : Cfg) : Prop := (cfg.mask &&& cfg.bitProperty != 0) = false

/-- a run of newlines is trivia only outside PROPERTY syntax (in a query `\n` is a token) -/
def TrivAllowed (cfg : Cfg) (t : Triv) : Prop := NonProperty cfg ∨ ∀ nl, t ≠ .newlines nl

def isNewlines : Triv → Bool
  | .newlines _ => true
  | _ => false

/-- no separator of the text contains a newline item -/
def noNewlines (sep0 : List Triv) (items : List Item) : Bool :=
  sep0.all (fun t => !isNewlines t) && items.all (fun it => it.sep.all (fun t => !isNewlines t))

theorem trivAllowed_of_not_newlines (cfg : Cfg) (t : Triv) (h : isNewlines t = false) : TrivAllowed cfg t := by
  right; intro nl e; subst e; simp [isNewlines] at h

theorem lexGo_triv (cfg : Cfg) (hwf : RulesWF cfg.rules = true) (t : Triv) (hnp : TrivAllowed cfg t) (after : List Ch) (f n : Nat)
    (hok : t.ok after = true) (hf : (t.text ++ after).length < f) :
    lexGo cfg f false n (t.text ++ after) = lexGo cfg f false n after := by
  cases t with
  | blanks c b =>
    simp only [Triv.ok, Bool.and_eq_true] at hok
    exact lexGo_skip1 cfg (c :: b) after .blanks f n (by simp) (best_blanks _ hwf c b after hok.1.1 hok.1.2 hok.2) rfl hf
  | newlines nl =>
    simp only [Triv.ok, Bool.and_eq_true] at hok
    refine lexGo_skip1 cfg (10 :: nl) after .newlines f n (by simp) (best_newlines _ hwf nl after hok.1 hok.2) ?_ hf
    have hnp' : NonProperty cfg := by
      rcases hnp with h | h
      · exact h
      · exact absurd rfl (h nl)
    simp only [action]; unfold NonProperty at hnp'; simp [hnp']
  | line body =>
    simp only [Triv.ok, Bool.and_eq_true] at hok
    have := best_lineComment _ hwf body after hok.1 hok.2
    refine lexGo_skip1 cfg (47 :: 47 :: body) after .lineComment f n (by simp) ?_ rfl hf
    simpa using this
  | cont b =>
    simp only [Triv.ok] at hok
    have := best_cont _ hwf b after hok
    have e : (92 :: (b ++ [10])) ++ after = 92 :: b ++ 10 :: after := by simp
    simp only [Triv.text] at hf ⊢
    rw [e] at hf ⊢
    have := lexGo_skip1 cfg (92 :: (b ++ [10])) after .cont f n (by simp) (by rw [e]; simpa using this) rfl (by rw [e]; exact hf)
    rw [e] at this; exact this
  | block body =>
    simp only [Triv.ok] at hok
    simp only [Triv.text] at hf ⊢
    have e : (47 :: 42 :: (body ++ [42, 47])) ++ after = 47 :: 42 :: (body ++ 42 :: 47 :: after) := by simp
    rw [e] at hf ⊢
    cases f with
    | zero => omega
    | succ f =>
      rw [lexGo_false_cons, best_commentOpen _ hwf]
      simp only [action, List.take_succ_cons, List.take_zero, List.drop_succ_cons, List.drop_zero, List.nil_append,
        List.length_nil, Nat.add_zero]
      rw [lexGo_comment cfg body after f n hok (by simp at hf ⊢; omega)]
      exact lexGo_fuel cfg _ _ _ _ _ (by simp at hf; omega) (by simp at hf; omega)

theorem lexGo_sep (cfg : Cfg) (hwf : RulesWF cfg.rules = true) :
    ∀ (ts : List Triv) (_hnp : ∀ t ∈ ts, TrivAllowed cfg t) (after : List Ch) (f n : Nat), sepOK ts after = true →
      (sepText ts ++ after).length < f →
      lexGo cfg f false n (sepText ts ++ after) = lexGo cfg f false n after := by
  intro ts
  induction ts with
  | nil => intro _ after f n _ _; rfl
  | cons t ts ih =>
    intro hnp after f n hok hf
    simp only [sepOK, Bool.and_eq_true] at hok
    simp only [sepText, List.append_assoc] at hf ⊢
    rw [lexGo_triv cfg hwf t (hnp t (by simp)) _ f n hok.1 hf]
    exact ih (fun t' ht' => hnp t' (by simp [ht'])) after f n hok.2 (by simp at hf ⊢; omega)

theorem action_snd (cfg : Cfg) (n : Nat) (r : Rule) (w : List Ch) (h : r ≠ .commentOpen) : (action cfg n r w).2 = false := by
  cases r <;> simp [action] at h ⊢
  split <;> rfl

/-- **The lexer is local.**  If every lexeme of a text, taken alone, is matched completely by its rule, every lexeme
    is `Closed` with respect to the one character that follows it, and the separators are well-formed trivia, then
    lexing the whole text yields exactly the concatenation of the lexemes' tokens. -/
theorem lex_render (cfg : Cfg) (hwf : RulesWF cfg.rules = true) :
    ∀ (items : List Item) (_hnp : ∀ it ∈ items, ∀ t ∈ it.sep, TrivAllowed cfg t) (f n : Nat),
      Renderable cfg items = true → (renderItems items).length < f →
      lexGo cfg f false n (renderItems items) = tokensOf cfg n items := by
  intro items
  induction items with
  | nil =>
    intro _ f n _ hf
    cases f with
    | zero => simp [renderItems] at hf
    | succ f => simp [renderItems, lexGo, tokensOf]
  | cons it rest ih =>
    intro hnp f n hr hf
    simp only [Renderable, Bool.and_eq_true, beq_iff_eq, bne_iff_ne, ne_eq] at hr
    obtain ⟨⟨⟨⟨hb, hne⟩, hcl⟩, hsep⟩, hrest⟩ := hr
    have hw : it.w ≠ [] := by
      intro e; rw [e] at hcl; simp [Closed] at hcl
    cases f with
    | zero => omega
    | succ f =>
      simp only [renderItems, tokensOf] at hf ⊢
      rw [lexGo_lexeme cfg it.w _ it.r f n hcl hb, action_snd cfg n it.r it.w hne]
      have hlen : 0 < it.w.length := List.length_pos_iff.mpr hw
      rw [lexGo_sep cfg hwf it.sep (hnp it (by simp)) (renderItems rest) f _ hsep (by simp at hf ⊢; omega)]
      rw [ih (fun it' hit' => hnp it' (by simp [hit'])) f _ hrest (by simp at hf ⊢; omega)]

/-! ### identifiers -/

theorem alpha_facts (c : Nat) (h : isAlpha c = true) :
    c ≠ 92 ∧ c ≠ 47 ∧ c ≠ 34 ∧ c ≠ 10 ∧ c ≠ 13 ∧ isBlank c = false ∧ isDigit c = false := by
  simp only [isAlpha, Bool.or_eq_true, Bool.and_eq_true, decide_eq_true_eq, beq_iff_eq] at h
  have hr : (97 ≤ c ∧ c ≤ 122) ∨ (65 ≤ c ∧ c ≤ 90) ∨ c = 95 := by
    rcases h with (h | h) | h
    · exact Or.inl h
    · exact Or.inr (Or.inl h)
    · exact Or.inr (Or.inr h)
  refine ⟨by omega, by omega, by omega, by omega, by omega, ?_, ?_⟩
  · have : c ≠ 32 ∧ c ≠ 9 := by omega
    simp [isBlank, this.1, this.2]
  · have : ¬ (48 ≤ c ∧ c ≤ 57) := by omega
    simp [isDigit]; omega

/-- `w` has the shape `{alpha}{idchr}*` -/
def identShaped (w : List Ch) : Bool :=
  match w with
  | [] => false
  | c :: cs => isAlpha c && cs.all isIdChr

/-- the rules listed before the identifier rule cannot match an identifier-shaped text completely unless they are a
    literal with exactly that text; `.` is listed after the identifier rule -/
def IdentWF (rules : List Rule) : Bool :=
  rules.contains .ident &&
  (rules.takeWhile (fun r => r != .ident)).all (fun r => match r with
    | .lit _ _ | .litOld _ _ | .cont | .lineComment | .blanks | .commentOpen | .newlines | .crlf => true
    | _ => false)

def litTexts (rules : List Rule) : List (List Ch) := rules.filterMap isLit

theorem matchLen_le (r : Rule) (c : Ch) (cs : List Ch) (hid : identShaped (c :: cs) = true) : matchLen r (c :: cs) ≤ (c :: cs).length := by
  simp only [identShaped, Bool.and_eq_true] at hid
  have ha := hid.1
  obtain ⟨n92, n47, n34, n10, n13, nbl, ndg⟩ := alpha_facts c ha
  cases r with
  | lit l t => simp only [matchLen]; split; exact pre_length _ _ (by assumption); omega
  | litOld l t => simp only [matchLen]; split; exact pre_length _ _ (by assumption); omega
  | ident => simp only [matchLen, ha, if_true, List.length_cons]; have := spanLen_le isIdChr cs; omega
  | anyChar => simp [matchLen]; split <;> omega
  | cont => rw [matchLen_zero_of_head _ _ _ (by simp [headOK, n92])]; omega
  | lineComment => rw [matchLen_zero_of_head _ _ _ (by simp [headOK, n47])]; omega
  | commentOpen => rw [matchLen_zero_of_head _ _ _ (by simp [headOK, n47])]; omega
  | string => rw [matchLen_zero_of_head _ _ _ (by simp [headOK, n34])]; omega
  | num => rw [matchLen_zero_of_head _ _ _ (by simp [headOK, ndg])]; omega
  | float => rw [matchLen_zero_of_head _ _ _ (by simp [headOK, ndg])]; omega
  | blanks => simp only [matchLen]; exact spanLen_le _ _
  | newlines => simp only [matchLen]; exact spanLen_le _ _
  | crlf =>
    rw [matchLen_zero_of_head _ _ _ (by simp [headOK, n13])]; omega

/-- an identifier-shaped text that is not the text of a literal rule is matched by the identifier rule -/
theorem best_ident (rules : List Rule) (hwf : IdentWF rules = true) (w : List Ch) (hid : identShaped w = true)
    (hlit : w ∉ litTexts rules) : best rules w = some (.ident, w.length) := by
  cases w with
  | nil => simp [identShaped] at hid
  | cons c cs =>
    simp only [IdentWF, Bool.and_eq_true, List.all_eq_true] at hwf
    have hmem : Rule.ident ∈ rules := by simpa using hwf.1
    have hsplit := split_at_mem .ident rules hmem
    have hpre := hwf.2
    have hid' := hid
    simp only [identShaped, Bool.and_eq_true] at hid
    have hm : matchLen .ident (c :: cs) = (c :: cs).length := by
      simp only [matchLen, hid.1, if_true, List.length_cons]
      rw [spanLen_all _ _ hid.2]
    rw [hsplit]
    apply best_first _ _ .ident _ _ hm (by simp)
    · intro r hr
      have hk := hpre r hr
      have hrm : r ∈ rules := (List.takeWhile_sublist _).subset hr
      have hle := matchLen_le r c cs hid'
      have hne : matchLen r (c :: cs) ≠ (c :: cs).length := by
        intro e
        have ha := hid.1
        obtain ⟨n92, n47, n34, n10, n13, nbl, ndg⟩ := alpha_facts c ha
        have litc : ∀ l, isLit r = some l → (if pre l (c :: cs) = true then l.length else 0) = (c :: cs).length → False := by
          intro l hl he
          split at he
          · rename_i hp
            have := pre_eq_of_length l (c :: cs) hp he
            apply hlit
            simp only [litTexts, List.mem_filterMap]
            exact ⟨r, hrm, by rw [hl, this]⟩
          · simp at he
        cases r with
        | lit l t => exact litc l rfl (by simpa [matchLen] using e)
        | litOld l t => exact litc l rfl (by simpa [matchLen] using e)
        | cont => rw [matchLen_zero_of_head _ _ _ (by simp [headOK, n92])] at e; simp at e
        | lineComment => rw [matchLen_zero_of_head _ _ _ (by simp [headOK, n47])] at e; simp at e
        | commentOpen => rw [matchLen_zero_of_head _ _ _ (by simp [headOK, n47])] at e; simp at e
        | blanks => rw [matchLen_zero_of_head _ _ _ (by simp [headOK, nbl])] at e; simp at e
        | newlines => rw [matchLen_zero_of_head _ _ _ (by simp [headOK, n10])] at e; simp at e
        | crlf => rw [matchLen_zero_of_head _ _ _ (by simp [headOK, n13])] at e; simp at e
        | _ => simp at hk
      omega
    · intro r _
      exact matchLen_le r c cs hid'

/-- what the identifier rule returns for a text that is no keyword under the current syntax -/
theorem action_ident (cfg : Cfg) (n : Nat) (w : List Ch) (hk : kwTok cfg w = none) (hlen : w.length < cfg.maxLen) :
    action cfg n .ident w = ([if cfg.isType n w then .typename w else .id w], false) := by
  simp only [action, hk]
  have h1 : ¬ (w.length ≥ cfg.maxLen) := by omega
  have h2 : w.take (cfg.maxLen - 1) = w := List.take_of_length_le (by omega)
  simp [h1, h2]

/-! ### renaming -/

theorem kwTok_isType (cfg : Cfg) (isType' : Nat → List Ch → Bool) (w : List Ch) :
    kwTok { cfg with isType := isType' } w = kwTok cfg w := rfl

theorem action_other (cfg : Cfg) (isType' : Nat → List Ch → Bool) (ρ : List Ch → List Ch) (n : Nat) (r : Rule) (w : List Ch)
    (hsoft : ∀ n w, w ∈ cfg.softLits → cfg.isType n w = false ∧ isType' n w = false)
    (h : r ≠ .ident ∨ kwTok cfg w ≠ none) :
    action { cfg with isType := isType' } n r w = action cfg n r w ∧ (action cfg n r w).1.map (renTok ρ) = (action cfg n r w).1 := by
  cases r with
  | ident =>
    rcases h with h | h
    · exact absurd rfl h
    · cases hk : kwTok cfg w with
      | none => exact absurd hk h
      | some t => simp [action, kwTok_isType, hk, renTok]
  | lit l t =>
    by_cases hc : w ∈ cfg.softLits
    · obtain ⟨h1, h2⟩ := hsoft n w hc
      simp [action, h1, h2, renTok]
    · simp [action, hc, renTok]
  | litOld l t => simp only [action]; refine ⟨trivial, ?_⟩; split <;> simp [renTok]
  | newlines => simp only [action]; refine ⟨trivial, ?_⟩; split <;> simp [renTok]
  | crlf => simp only [action]; refine ⟨trivial, ?_⟩; split <;> simp [renTok]
  | num => simp only [action, numTok]; refine ⟨trivial, ?_⟩; split; simp [renTok]; split; simp [renTok]; split <;> simp [renTok]
  | _ => simp [action, renTok]

theorem tokensOf_rename (cfg : Cfg) (isType' : Nat → List Ch → Bool) (ρ : List Ch → List Ch)
    (htype : ∀ n w, isType' n (ρ w) = cfg.isType n w)
    (hsoft : ∀ n w, w ∈ cfg.softLits → cfg.isType n w = false ∧ isType' n w = false) :
    ∀ (items : List Item) (n : Nat),
      (∀ it ∈ items, isUserId cfg it = true →
          kwTok cfg (ρ it.w) = none ∧ (ρ it.w).length < cfg.maxLen ∧ it.w.length < cfg.maxLen) →
      tokensOf { cfg with isType := isType' } n (renItems cfg ρ items) = (tokensOf cfg n items).map (renTok ρ) := by
  intro items
  induction items with
  | nil => intro n _; rfl
  | cons it rest ih =>
    intro n h
    have hrest := ih
    simp only [renItems, List.map_cons, tokensOf, List.map_append]
    cases hu : isUserId cfg it with
    | true =>
      obtain ⟨hk', hl', hl⟩ := h it (by simp) hu
      simp only [isUserId, Bool.and_eq_true, beq_iff_eq, Option.isNone_iff_eq_none] at hu
      obtain ⟨hr, hk⟩ := hu
      simp only [if_true, hr]
      have a1 : action cfg n .ident it.w = ([if cfg.isType n it.w then .typename it.w else .id it.w], false) :=
        action_ident cfg n it.w hk hl
      have a2 : action { cfg with isType := isType' } n .ident (ρ it.w) =
          ([if isType' n (ρ it.w) then .typename (ρ it.w) else .id (ρ it.w)], false) :=
        action_ident { cfg with isType := isType' } n (ρ it.w) (by rw [kwTok_isType]; exact hk') hl'
      rw [a1, a2, htype]
      simp only [List.length_singleton, List.map_cons, List.map_nil]
      have := ih (n + 1) (fun it' hit' => h it' (List.mem_cons_of_mem _ hit'))
      simp only [renItems] at this
      rw [this]
      cases cfg.isType n it.w <;> simp [renTok]
    | false =>
      simp only [Bool.false_eq_true, if_false]
      have hne : it.r ≠ .ident ∨ kwTok cfg it.w ≠ none := by
        simp only [isUserId, Bool.and_eq_false_iff, beq_eq_false_iff_ne, ne_eq] at hu
        rcases hu with hu | hu
        · exact Or.inl hu
        · right; intro e; simp [e] at hu
      obtain ⟨e1, e2⟩ := action_other cfg isType' ρ n it.r it.w hsoft hne
      rw [e1, e2]
      have := ih (n + (action cfg n it.r it.w).1.length) (fun it' hit' => h it' (List.mem_cons_of_mem _ hit'))
      simp only [renItems] at this
      rw [this]

/-! ### whole texts -/

theorem tokensOf_congr (cfg : Cfg) : ∀ (items items' : List Item) (n : Nat),
    items.map (fun i => (i.w, i.r)) = items'.map (fun i => (i.w, i.r)) → tokensOf cfg n items = tokensOf cfg n items' := by
  intro items
  induction items with
  | nil => intro items' n h; cases items' with
    | nil => rfl
    | cons a b => simp at h
  | cons it rest ih =>
    intro items' n h
    cases items' with
    | nil => simp at h
    | cons it' rest' =>
      simp only [List.map_cons, List.cons.injEq, Prod.mk.injEq] at h
      obtain ⟨⟨hw, hr⟩, ht⟩ := h
      simp only [tokensOf, hw, hr]
      rw [ih rest' _ ht]

/-- the whole text: a leading separator, then the items -/
theorem lex_text' (cfg : Cfg) (hwf : RulesWF cfg.rules = true) (sep0 : List Triv) (items : List Item)
    (hnp0 : ∀ t ∈ sep0, TrivAllowed cfg t) (hnp : ∀ it ∈ items, ∀ t ∈ it.sep, TrivAllowed cfg t)
    (h0 : sepOK sep0 (renderItems items) = true) (h : Renderable cfg items = true) :
    lex cfg (sepText sep0 ++ renderItems items) = tokensOf cfg 0 items := by
  unfold lex
  rw [lexGo_sep cfg hwf sep0 hnp0 _ _ 0 h0 (by omega)]
  exact lex_render cfg hwf items hnp _ 0 h (by simp; omega)

theorem lex_text (cfg : Cfg) (hwf : RulesWF cfg.rules = true) (hnp : NonProperty cfg) (sep0 : List Triv) (items : List Item)
    (h0 : sepOK sep0 (renderItems items) = true) (h : Renderable cfg items = true) :
    lex cfg (sepText sep0 ++ renderItems items) = tokensOf cfg 0 items :=
  lex_text' cfg hwf sep0 items (fun _ _ => Or.inl hnp) (fun _ _ _ _ => Or.inl hnp) h0 h

/-- the same in any syntax (PROPERTY included) when no separator contains a run of newlines -/
theorem lex_text_nonl (cfg : Cfg) (hwf : RulesWF cfg.rules = true) (sep0 : List Triv) (items : List Item)
    (hnl : noNewlines sep0 items = true)
    (h0 : sepOK sep0 (renderItems items) = true) (h : Renderable cfg items = true) :
    lex cfg (sepText sep0 ++ renderItems items) = tokensOf cfg 0 items := by
  simp only [noNewlines, Bool.and_eq_true, List.all_eq_true, Bool.not_eq_true'] at hnl
  exact lex_text' cfg hwf sep0 items (fun t ht => trivAllowed_of_not_newlines cfg t (hnl.1 t ht))
    (fun it hit t ht => trivAllowed_of_not_newlines cfg t (hnl.2 it hit t ht)) h0 h

end UtapModel.C09
