/- Line-protocol driver of C04: reads abstract models (format of checks/c04_model.py `lean_lines`, each introduced by
   `model <id>` and closed by `end`) and prints what the model of the XML reader + document builder predicts:
   the callback trace of `readXml (renderXml M)` and the canonical dump of the built document.  The C++ harness
   `harness/c04.cpp` answers the rendered XML text with the real trace and dump. -/
import UtapModel.Model.AModelIO
open UtapModel.AM

def report (id : String) (M : AModel) : List String :=
  let calls := readXml (renderXml M)
  let s := build calls
  [s!"BEGIN {id}", s!"WF {b01 M.wf}", s!"SPEC-EQ {b01 (decide (s.doc = docOf M))}", s!"ERRS {s.errs.length}",
   s!"FRAGS {s.frags.length}"] ++
  (traceLines {} calls).map ("TRACE " ++ ·) ++ (docLines s.doc) ++ [s!"END {id}"]

partial def loop (h out : IO.FS.Stream) (id : String) (ps : PS) : IO Unit := do
  let line ← h.getLine
  if line.isEmpty then return ()
  let ws := (line.trimAscii.toString.splitOn " ").filter (· ≠ "")
  match ws with
  | ["model", i] => loop h out i {}
  | ["end"] =>
    for l in report id ps.m do out.putStrLn l
    loop h out id {}
  | _ => loop h out id (feed ps ws)

def main : IO Unit := do
  loop (← IO.getStdin) (← IO.getStdout) "?" {}
