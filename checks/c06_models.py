"""Seed models, block layouts and fault injection for C06 (and reused by C15 as a source of XML inputs).

A seed model is a Python structure (not XML text) so that the check knows, independently of the library, which element
every text block lives in (its fully indexed path `/nta[1]/template[2]/transition[3]/label[1]`) and where inside the
block's text a fault was injected (line / column computed here by counting '\\n' in the block text)."""
import re

# every seed declares these three globals so that type-error and side-effect faults can be built anywhere
FAULT_GLOBALS = "struct { int a; } zs;\nint zi;\n"


def esc(s):
    """XML-escape a block text.  '\\r' must travel as a character reference: XML parsers normalise raw CR LF to LF."""
    return s.replace("&", "&amp;").replace("<", "&lt;").replace(">", "&gt;").replace("\r", "&#13;")


class Block:
    def __init__(self, key, kind, canon, text, label_kind=None):
        self.key = key              # tuple identifying the block inside the model
        self.kind = kind            # declaration | parameter | label | instantiation | system | query
        self.canon = canon          # fully indexed path of the element
        self.text = text
        self.label_kind = label_kind


def blocks_of(m):
    out = [Block(("decl",), "declaration", "/nta[1]/declaration[1]", m["decl"])]
    for ti, t in enumerate(m["templates"]):
        base = "/nta[1]/template[%d]" % (ti + 1)
        if t.get("parameter") is not None:
            out.append(Block(("t", ti, "param"), "parameter", base + "/parameter[1]", t["parameter"]))
        if t.get("decl") is not None:
            out.append(Block(("t", ti, "decl"), "declaration", base + "/declaration[1]", t["decl"]))
        for li, l in enumerate(t["locations"]):
            for k, (kind, text) in enumerate(l.get("labels", [])):
                out.append(Block(("t", ti, "loc", li, k), "label", "%s/location[%d]/label[%d]" % (base, li + 1, k + 1), text, kind))
        for j, tr in enumerate(t["transitions"]):
            for k, (kind, text) in enumerate(tr.get("labels", [])):
                out.append(Block(("t", ti, "tr", j, k), "label", "%s/transition[%d]/label[%d]" % (base, j + 1, k + 1), text, kind))
    if m.get("inst") is not None:
        out.append(Block(("inst",), "instantiation", "/nta[1]/instantiation[1]", m["inst"]))
    out.append(Block(("system",), "system", "/nta[1]/system[1]", m["system"]))
    # the queries stored in the model file: text blocks too, parsed in a second step (by whoever runs the queries) against the finished
    # document, with the XPath the reader recorded for their <formula> element
    for k, q in enumerate(m.get("queries", [])):
        out.append(Block(("query", k), "query", "/nta[1]/queries[1]/query[%d]/formula[1]" % (k + 1), q))
    return out


def render(m, override=None, cdata=()):
    """XML text of the model; `override` maps block keys to replacement texts; the blocks whose keys are in `cdata` are written as
    CDATA sections instead of escaped text."""
    ov = override or {}

    def txt(key, default):
        t = ov.get(key, default)
        if key in cdata and "]]>" not in t:
            return "<![CDATA[" + t + "]]>"
        return esc(t)

    o = ['<?xml version="1.0" encoding="utf-8"?>\n<nta>\n']
    o.append("<declaration>%s</declaration>\n" % txt(("decl",), m["decl"]))
    for ti, t in enumerate(m["templates"]):
        o.append("<template>\n<name>%s</name>\n" % t["name"])
        if t.get("parameter") is not None:
            o.append("<parameter>%s</parameter>\n" % txt(("t", ti, "param"), t["parameter"]))
        if t.get("decl") is not None:
            o.append("<declaration>%s</declaration>\n" % txt(("t", ti, "decl"), t["decl"]))
        for li, l in enumerate(t["locations"]):
            o.append('<location id="%s" x="%d" y="0">\n' % (l["id"], li * 100))
            if l.get("name"):
                o.append("<name>%s</name>\n" % l["name"])
            for k, (kind, text) in enumerate(l.get("labels", [])):
                o.append('<label kind="%s">%s</label>\n' % (kind, txt(("t", ti, "loc", li, k), text)))
            if l.get("urgent"):
                o.append("<urgent/>\n")
            if l.get("committed"):
                o.append("<committed/>\n")
            o.append("</location>\n")
        for b in t.get("branchpoints", []):
            o.append('<branchpoint id="%s" x="0" y="50"/>\n' % b)
        o.append('<init ref="%s"/>\n' % t["init"])
        for j, tr in enumerate(t["transitions"]):
            o.append("<transition>\n<source ref=\"%s\"/>\n<target ref=\"%s\"/>\n" % (tr["source"], tr["target"]))
            for k, (kind, text) in enumerate(tr.get("labels", [])):
                o.append('<label kind="%s">%s</label>\n' % (kind, txt(("t", ti, "tr", j, k), text)))
            for _ in range(tr.get("nails", 0)):
                o.append('<nail x="1" y="2"/>\n')
            o.append("</transition>\n")
        o.append("</template>\n")
    if m.get("inst") is not None:
        o.append("<instantiation>%s</instantiation>\n" % txt(("inst",), m["inst"]))
    o.append("<system>%s</system>\n" % txt(("system",), m["system"]))
    if m.get("queries"):
        o.append("<queries>\n")
        for k, q in enumerate(m["queries"]):
            o.append("<query><formula>%s</formula><comment>c</comment></query>\n" % txt(("query", k), q))
        o.append("</queries>\n")
    o.append("</nta>\n")
    return "".join(o)


# ---------------------------------------------------------------------------------------------------------------------
# seed models
# ---------------------------------------------------------------------------------------------------------------------

def seeds():
    s = []
    # 1: train-gate like: arrays, typedef, functions, select, quantifier, committed
    s.append({
        "decl": FAULT_GLOBALS + "const int N = 3;\ntypedef int[0,N-1] id_t;\nchan appr[N], stop[N], leave[N];\nurgent chan go[N];\n"
                "int[0,N] len = 0;\nid_t list[N];\n"
                "void enqueue(id_t element) {\n  list[len++] = element;\n}\n"
                "void dequeue() {\n  int i = 0;\n  len -= 1;\n  while (i < len) {\n    list[i] = list[i + 1];\n    i++;\n  }\n  list[i] = 0;\n}\n"
                "id_t front() { return list[0]; }\nid_t tail() { return list[len - 1]; }\n",
        "templates": [
            {"name": "Train", "parameter": "const id_t id", "decl": "clock x;\nint cnt = 2 * N + 1;",
             "locations": [{"id": "id0", "name": "Safe"}, {"id": "id1", "name": "Stop"},
                           {"id": "id2", "name": "Cross", "labels": [("invariant", "x <= 5")]},
                           {"id": "id3", "name": "Appr", "labels": [("invariant", "x <= 20 && cnt >= 0")]},
                           {"id": "id4", "name": "Start", "labels": [("invariant", "x <= 15")]}],
             "init": "id0",
             "transitions": [
                 {"source": "id3", "target": "id2", "labels": [("guard", "x >= 10"), ("assignment", "x = 0")]},
                 {"source": "id3", "target": "id1", "labels": [("guard", "x <= 10"), ("synchronisation", "stop[id]?")]},
                 {"source": "id2", "target": "id0", "labels": [("guard", "x >= 3"), ("synchronisation", "leave[id]!")], "nails": 1},
                 {"source": "id0", "target": "id3", "labels": [("synchronisation", "appr[id]!"), ("assignment", "x = 0,\ncnt = cnt - 1 + 1")]},
                 {"source": "id4", "target": "id2", "labels": [("guard", "x >= 7 && (cnt + 1) * 2 > 0"), ("assignment", "x = 0")]},
                 {"source": "id1", "target": "id4", "labels": [("synchronisation", "go[id]?"), ("assignment", "x = 0")]}]},
            {"name": "Gate", "decl": "int seen[N];\nbool all() { return forall (i : id_t) seen[i] >= 0; }",
             "locations": [{"id": "id5", "name": "Occ"}, {"id": "id6", "name": "Free"}, {"id": "id7", "committed": True}],
             "init": "id6",
             "transitions": [
                 {"source": "id5", "target": "id7", "labels": [("select", "e : id_t"), ("synchronisation", "appr[e]?"), ("assignment", "enqueue(e)")]},
                 {"source": "id5", "target": "id6", "labels": [("select", "e : id_t"), ("guard", "e == front() && all()"),
                                                                 ("synchronisation", "leave[e]?"), ("assignment", "dequeue()")]},
                 {"source": "id6", "target": "id5", "labels": [("select", "e : id_t"), ("guard", "len == 0"), ("synchronisation", "appr[e]?"),
                                                                 ("assignment", "enqueue(e), seen[e] = seen[e] + 1")]},
                 {"source": "id6", "target": "id5", "labels": [("guard", "len > 0 && forall (k : id_t) seen[k] < 1000"), ("synchronisation", "go[front()]!")]},
                 {"source": "id7", "target": "id5", "labels": [("synchronisation", "stop[tail()]!")]}]}],
        "system": "system Train, Gate;",
        "queries": ["A[] not deadlock", "E<> len > 1 && Gate.Occ", "A[] forall (i : id_t) list[i] <= N - 1 \\\n  && len <= N",
                    "Train(0).Appr --> Train(0).Cross"]})
    # 2: structs, records, if/for, instantiation block, urgent location, two instances
    s.append({
        "decl": FAULT_GLOBALS + "typedef struct { int a; bool b; } rec_t;\nrec_t r = { 1, true };\nconst int M = 4;\nint buf[M] = { 0, 1, 2, 3 };\n"
                "broadcast chan tick;\nchan c;\nint total = 0;\n"
                "int addup(int n) {\n  int acc = 0;\n  for (i : int[0, M - 1]) {\n    if (i < n) acc += buf[i];\n    else acc -= 0;\n  }\n  return acc;\n}\n"
                "void upd(int &v, int d) { v = v + d; }\n",
        "templates": [
            {"name": "P", "parameter": "int[0,3] k, const int lim", "decl": "clock t;\nint loc = 0;",
             "locations": [{"id": "a0", "name": "Idle", "labels": [("invariant", "t <= lim + 10")]},
                           {"id": "a1", "name": "Busy", "urgent": True}, {"id": "a2", "name": "Done"}],
             "init": "a0",
             "transitions": [
                 {"source": "a0", "target": "a1", "labels": [("guard", "t >= 1 && r.a > 0 && buf[k] >= 0"), ("synchronisation", "tick!"),
                                                               ("assignment", "loc = addup(k) + r.a, t = 0")]},
                 {"source": "a1", "target": "a2", "labels": [("guard", "r.b || loc == lim"), ("synchronisation", "c!"), ("assignment", "upd(total, loc)")]},
                 {"source": "a2", "target": "a0", "labels": [("guard", "(total > 100 ? 1 : 0) == 0"), ("assignment", "total = 0, loc = buf[(k + 1) % M]")]}]},
            {"name": "Q", "decl": "int got = 0;",
             "locations": [{"id": "b0"}, {"id": "b1", "labels": [("invariant", "got <= M * 10")]}],
             "init": "b0",
             "transitions": [
                 {"source": "b0", "target": "b1", "labels": [("synchronisation", "c?"), ("assignment", "got = got + 1")]},
                 {"source": "b1", "target": "b0", "labels": [("synchronisation", "tick?")]},
                 {"source": "b1", "target": "b1", "labels": [("guard", "exists (j : int[0, M - 1]) buf[j] == got"), ("assignment", "got = 0")]}]}],
        "inst": "P1 = P(1, 5);\nP2 = P(2, 7);\n",
        "system": "system P1, P2, Q;",
        "queries": ["E<> P1.Busy && total >= 0", "A[] Q.got <= M * 10 && P2.loc >= 0"]})
    # 3: stochastic / hybrid: branchpoint with probabilities, exponential rate, clock rates, doubles
    s.append({
        "decl": FAULT_GLOBALS + "const double RATE = 2.5;\ndouble acc = 0.0;\nint cnt = 0;\nclock g;\nbroadcast chan b;\n"
                "double scale(double v) { return v * 2.0 + 1.0; }\n",
        "templates": [
            {"name": "S", "decl": "clock x, y;\nint w = 3;",
             "locations": [{"id": "s0", "name": "L0", "labels": [("invariant", "x <= 10 && y' == 2"), ("exponentialrate", "1 + w")]},
                           {"id": "s1", "name": "L1", "labels": [("invariant", "x <= 4")]},
                           {"id": "s2", "name": "L2", "labels": [("exponentialrate", "3")]}],
             "branchpoints": ["bp0"], "init": "s0",
             "transitions": [
                 {"source": "s0", "target": "bp0", "labels": [("guard", "x >= 2"), ("synchronisation", "b!")]},
                 {"source": "bp0", "target": "s1", "labels": [("assignment", "x = 0, cnt = cnt + 1"), ("probability", "w + 1")]},
                 {"source": "bp0", "target": "s2", "labels": [("assignment", "acc = scale(acc)"), ("probability", "2")]},
                 {"source": "s1", "target": "s0", "labels": [("guard", "x >= 1 && cnt < 100"), ("assignment", "y = 0")]},
                 {"source": "s2", "target": "s0", "labels": [("assignment", "x = 0, y = 0, w = (w * 2) % 7 + 1")]}]}],
        "system": "system S;",
        "queries": ["Pr[<=10](<> S.L1)", "E<> cnt > 2 && S.L2"]})
    # 4: many small templates / labels: sibling indices get large; scalar sets; channel arrays; priorities
    s.append({
        "decl": FAULT_GLOBALS + "typedef scalar[3] sid_t;\nchan hs[3];\nint v[3] = { 1, 2, 3 };\nbool flag = false;\nmeta int tmp;\n"
                "int pick(int i) { return v[i % 3]; }\nchan priority hs[0] < hs[1] < default;\n",
        "templates": [
            {"name": "A%d" % i, "decl": "clock z;",
             "locations": [{"id": "l%d_%d" % (i, j), "labels": [("invariant", "z <= %d" % (10 + j))]} for j in range(3)],
             "init": "l%d_0" % i,
             "transitions": [{"source": "l%d_%d" % (i, j), "target": "l%d_%d" % (i, (j + 1) % 3),
                              "labels": [("guard", "z >= %d && pick(%d) > 0" % (j, i)), ("synchronisation", "hs[%d]%s" % (i % 3, "!" if i % 2 == 0 else "?")),
                                         ("assignment", "z = 0, v[%d] = pick(%d) + %d" % (i % 3, j, j))]} for j in range(3)]}
            for i in range(4)],
        "system": "system A0, A1 < A2, A3;",
        "queries": ["A[] A0.z >= 0 && v[0] + v[1] > 0", "E<> flag == false && pick(1) > 0"]})
    return s


# old-syntax seed kept small; used by C15 and by the thorough tier
OLD_SYNTAX_XTA = "int x; clock c;\nprocess P { state S0 { c <= 5 }, S1; init S0; trans S0 -> S1 { guard c >= 1; assign x := 1; }; }\nsystem P;"


# ---------------------------------------------------------------------------------------------------------------------
# tokenising a block text (only to find token positions; this is not the model of the lexer)
# ---------------------------------------------------------------------------------------------------------------------

TOKEN_RE = re.compile(r"""
    (?P<ws>(?:[ \t\r\n]|\\[ \t]*\n)+)
  | (?P<cmt>/\*.*?\*/|//[^\n]*)
  | (?P<pq>A\[\]|A<>|E\[\]|E<>|<>)
  | (?P<id>[A-Za-z_][A-Za-z0-9_]*)
  | (?P<num>[0-9]+(?:\.[0-9]+)?(?:[eE][+-]?[0-9]+)?)
  | (?P<op><<=|>>=|-->|\+\+|--|&&|\|\||==|!=|<=|>=|:=|\+=|-=|\*=|/=|%=|<<|>>|->|[-+*/%<>=!&|^?:;,.(){}\[\]'])
""", re.X | re.S)

KEYWORDS = set("""const int bool clock chan urgent broadcast void double struct typedef scalar meta return if else for while do
 true false forall exists sum system process state init trans guard sync assign select priority default not and or imply
 hybrid string break continue switch case""".split())
BUILTIN_TYPES = {"int", "bool", "clock", "chan", "double", "void", "scalar", "struct"}
# words of the query language that are identifiers to the tokeniser above but not operand uses
QUERY_WORDS = {"A", "E", "U", "W", "R", "Pr", "simulate", "sup", "inf", "bounds", "max", "min", "deadlock", "control", "minE", "maxE",
               "strategy", "under", "saveStrategy", "loadStrategy"}


def tokenize(text):
    toks, i = [], 0
    while i < len(text):
        m = TOKEN_RE.match(text, i)
        if not m:
            raise ValueError("cannot tokenise seed text at %r" % text[i:i + 20])
        k = m.lastgroup
        if k not in ("ws", "cmt"):
            toks.append((k, m.group(0), m.start(), m.end()))
        i = m.end()
    return toks


def line_col(text, off):
    """reference line (1-based) and column (0-based, in bytes) of character offset `off`: count the newlines"""
    b = text[:off].encode("utf-8")
    line = b.count(b"\n") + 1
    col = len(b) - (b.rfind(b"\n") + 1)
    return line, col


# ---------------------------------------------------------------------------------------------------------------------
# layouts: semantically neutral rewrites of a block text between its tokens
# ---------------------------------------------------------------------------------------------------------------------

LAYOUTS = ["plain", "blank-lines", "crlf", "comments", "boxed-comments"]
# the first ROTATED layouts share the fault sites of the quick tier among them; the layouts after them ride along with the first
ROTATED = 4

# banner / box styles of block comments: lines that end in `*` directly before the line end, rows of stars, a star in front of `*/`,
# CRLF inside the box.  The body of a comment is consumed by rules of its own in the lexer, and every line end inside it must
# still be counted for the lines after it.
BOX_LEAD = "/**********\n * lead   *\n *  ing   *\n **********/\n"
BOX_FILL = ["/* a *\n * b */", "/*****\n *****/", "/* c **\n\n*/", "/**\n *\n **/", "/* d\t*\r\n * e *\r\n */", "/***/", "/* f*\n*/"]


def relayout(text, layout, salt=0, kind=None):
    """`kind` = kind of the block.  In a query a line end outside a comment ends the query (a formula text is a list of queries, one
    per line, empty ones allowed), so the layouts of a query block put their line ends in front of the query, inside comments and
    behind line continuations only."""
    if layout == "plain":
        return text
    if layout == "blank-lines":
        return "\n\n\n" + text
    toks = tokenize(text)
    if kind == "query":
        if layout == "crlf":
            return "\r\n\r\n" + text
        if layout == "boxed-comments":
            return boxed(text, toks, salt)
        fill = ["/* c */", "\\\n", "/* a\n b */", " \\ \n", "/**/", "/* // */"]
        out, prev = ["/* lead\n   ing */\n"], 0
        for n, (k, s, a, b) in enumerate(toks):
            gap = text[prev:a]
            if n > 0 and (n + salt) % 2 == 0:
                gap += " " + fill[(n + salt) % len(fill)] + " "
            out.append(gap + s)
            prev = b
        return "".join(out) + text[prev:]
    if layout == "crlf":
        # existing line ends become CRLF, and every third gap between tokens becomes a CRLF line break
        out, prev = [], 0
        for n, (k, s, a, b) in enumerate(toks):
            gap = text[prev:a].replace("\n", "\r\n")
            if n > 0 and (n + salt) % 3 == 0 and "\n" not in gap:
                gap += "\r\n"
            out.append(gap + s)
            prev = b
        return "".join(out) + text[prev:].replace("\n", "\r\n")
    if layout == "comments":
        fill = ["/* c */", "// c\n", "\\\n", "/* a\n b */", " \\ \n", "/**/", "//\n", "\n\n"]
        out, prev = ["/* lead\n   ing */\n"], 0
        for n, (k, s, a, b) in enumerate(toks):
            gap = text[prev:a]
            if n > 0 and (n + salt) % 2 == 0:
                gap += " " + fill[(n + salt) % len(fill)] + " "
            out.append(gap + s)
            prev = b
        return "".join(out) + text[prev:]
    if layout == "boxed-comments":
        return boxed(text, toks, salt)
    raise ValueError(layout)


def boxed(text, toks, salt):
    """a banner in front of the block and a box comment in every second gap between tokens (all line ends inside comments: fits a query too)"""
    out, prev = [BOX_LEAD], 0
    for n, (k, s, a, b) in enumerate(toks):
        gap = text[prev:a]
        if n > 0 and (n + salt) % 2 == 0:
            gap += " " + BOX_FILL[((n + salt) // 2) % len(BOX_FILL)] + " "
        out.append(gap + s)
        prev = b
    return "".join(out) + text[prev:]


# ---------------------------------------------------------------------------------------------------------------------
# faults
# ---------------------------------------------------------------------------------------------------------------------

FAULT_KINDS = ["undeclared", "dropped-operand", "unbalanced-bracket", "stray-token", "type-error", "side-effect", "unterminated-comment"]
OPERATORS_BEFORE_USE = {"=", "+", "-", "*", "/", "%", "<", ">", "<=", ">=", "==", "!=", "&&", "||", "!", "return", "+=", "-=", ":=", "?"}
BRACKETS = "()[]{}"
STRAYS = ["@", ",", ")", "?", "=", "]"]


def is_use(block, toks, i):
    """is token i an operand *use* (so that replacing it by an unknown name is a fault of this block and of no other)?"""
    k, s, a, b = toks[i]
    if k == "num":
        return True
    if k != "id" or s in KEYWORDS:
        return False
    prev = toks[i - 1][1] if i > 0 else None
    nxt = toks[i + 1][1] if i + 1 < len(toks) else None
    if prev == ".":
        return False
    if block.kind == "query" and (s in QUERY_WORDS or nxt == "("):
        return False        # path quantifiers and the like; `Train(0)`: a process of a template array, not a plain name
    if (block.kind == "label" and block.label_kind != "select") or block.kind == "query":
        # quantifier binders `forall (i : T)` declare
        if prev == "(" and i >= 2 and toks[i - 2][1] in ("forall", "exists", "sum") and nxt == ":":
            return False
        # the type of a binder
        if prev == ":" and i >= 3 and toks[i - 3][1] == "(" and i >= 4 and toks[i - 4][1] in ("forall", "exists", "sum"):
            return False
        return True
    return prev in OPERATORS_BEFORE_USE and prev is not None


def faults_at(block, text, toks, i, kind):
    """list of (mutated text, info) for fault `kind` at token position i (i == len(toks) is the end of the block)"""
    out = []
    n = len(toks)

    def splice(a, b, new):
        return text[:a] + new + text[b:]

    if kind == "undeclared":
        if i < n and is_use(block, toks, i):
            name = "zzq%d" % i
            a, b = toks[i][2], toks[i][3]
            t2 = splice(a, b, name)
            out.append((t2, {"ident": name, "off": a}))
    elif kind == "dropped-operand":
        if i < n and toks[i][0] in ("num", "id") and toks[i][1] not in KEYWORDS:
            out.append((splice(toks[i][2], toks[i][3], ""), {}))
    elif kind == "unbalanced-bracket":
        if i < n and toks[i][1] in BRACKETS and len(toks[i][1]) == 1:
            out.append((splice(toks[i][2], toks[i][3], ""), {"how": "deleted " + toks[i][1]}))
        pos = toks[i][2] if i < n else len(text)
        extra = BRACKETS[i % len(BRACKETS)]
        out.append((splice(pos, pos, extra + " "), {"how": "inserted " + extra}))
    elif kind == "stray-token":
        pos = toks[i][2] if i < n else len(text)
        st = STRAYS[i % len(STRAYS)]
        out.append((splice(pos, pos, st + " "), {"stray": st, "off": pos}))
    elif kind == "type-error":
        if i < n and is_use(block, toks, i):
            out.append((splice(toks[i][2], toks[i][3], "(%s + zs)" % toks[i][1]), {}))
    elif kind == "side-effect":
        if i < n and ((block.kind == "label" and block.label_kind in ("guard", "invariant")) or block.kind == "query") and is_use(block, toks, i):
            out.append((splice(toks[i][2], toks[i][3], "(%s + zi++)" % toks[i][1]), {}))
    elif kind == "unterminated-comment":
        # the comment must really stay open: later comment ends (of the layout) are broken up
        pos = toks[i][2] if i < n else len(text)
        out.append((text[:pos] + "/* " + text[pos:].replace("*/", "* /"), {"off": pos}))
    return out


# ---------------------------------------------------------------------------------------------------------------------
# structural faults: errors the reader attributes to elements (dummy one-character positions, <name> texts, references)
# ---------------------------------------------------------------------------------------------------------------------

def structural_variants(m, xml):
    """(description, xml, expectation) variants of a rendered seed whose diagnostics are attached to elements rather than to block
    texts.  The expectation (message prefix, canonical path prefix) names the element that the diagnostic is about; None = only the
    per-diagnostic oracle applies."""
    out = []

    def rep(desc, old, new, count=1, expect=None, src=None):
        x = src or xml
        if old in x:
            out.append((desc, x.replace(old, new, count), expect))

    t0 = m["templates"][0]
    l0, l1 = t0["locations"][0], t0["locations"][1]
    T1 = "/nta[1]/template[1]"
    rep("duplicate-location-id", 'id="%s"' % l1["id"], 'id="%s"' % l0["id"])
    if l0.get("name") and l1.get("name"):
        rep("duplicate-location-name", "<name>%s</name>" % l1["name"], "<name>%s</name>" % l0["name"],
            expect=("$Duplicate_definition_of", T1 + "/location[2]"))
        rep("keyword-location-name", "<name>%s</name>" % l1["name"], "<name>clock</name>", expect=("$Keywords_are_not", T1 + "/location[2]"))
        rep("invalid-location-name", "<name>%s</name>" % l1["name"], "<name>two words</name>", expect=("Invalid identifier", T1 + "/location[2]"))
        # an anonymous empty location whose generated name `_<id>` is taken by a named one: reported at the anonymous location
        nloc = len(t0["locations"])
        anon = '<location id="id90" x="0" y="0">\n</location>\n'
        x2 = xml.replace("<name>%s</name>" % l1["name"], "<name>_id90</name>", 1)
        last = x2.rfind("</location>\n", 0, x2.index("</template>")) + len("</location>\n")     # after the template's last location
        out.append(("generated-name-clash", x2[:last] + anon + x2[last:], ("$Duplicate_definition_of", T1 + "/location[%d]" % (nloc + 1))))
        if len(t0["locations"]) > 2:
            l2 = t0["locations"][2]
            rep("generated-name-clash-middle", '<location id="%s"' % l2["id"], anon + '<location id="%s"' % l2["id"], src=x2,
                expect=("$Duplicate_definition_of", T1 + "/location[3]"))
    rep("keyword-template-name", "<name>%s</name>" % t0["name"], "<name>int</name>", expect=("$Keywords_are_not", T1 + "/name[1]"))
    rep("empty-template-name", "<name>%s</name>" % t0["name"], "<name>1abc</name>", expect=("Identifier expected", T1 + "/name[1]"))
    if len(m["templates"]) > 1:
        rep("duplicate-template-name", "<name>%s</name>" % m["templates"][1]["name"], "<name>%s</name>" % t0["name"],
            expect=("$Duplicate_definition_of", "/nta[1]/template[2]"))
    rep("missing-init", '<init ref="%s"/>' % t0["init"], "", expect=("$Missing_initial_location", T1))
    rep("blank-system", "<system>%s</system>" % esc(m["system"]), "<system>  \n </system>", expect=("$syntax_error", "/nta[1]/system[1]"))
    rep("empty-system", "<system>%s</system>" % esc(m["system"]), "<system></system>", expect=("$syntax_error", "/nta[1]/system[1]"))
    rep("no-system", "<system>%s</system>" % esc(m["system"]), "", expect=("$Missing_system_tag", "/nta[1]"))
    rep("urgent-and-committed", "</location>", "<urgent/><committed/></location>", expect=("$States_cannot_be_committed_and_urgent", T1 + "/location[1]"))
    rep("unknown-element", "<template>", "<template><frobnicate a=\"1\"><x/></frobnicate>")
    rep("two-invariants", "</location>", '<label kind="invariant">zi &lt; 9</label></location>')
    rep("comment-node-in-block", "<declaration>", "<declaration><!-- xml comment -->")
    rep("cdata-block", "<system>%s</system>" % esc(m["system"]), "<system><![CDATA[%s zzq1]]></system>" % m["system"].replace(";", ","))
    return out


# renderings of the XML layer: the same elements with and without white space between them, empty elements closed in place,
# elements the reader does not know (an editor's extension) in front of the elements whose XPath step carries an index: the reader skips
# them, and they must not shift or restart the sibling count of the elements after them
XML_LAYERS = ["pretty", "compact", "selfclosed", "compact-selfclosed", "foreign"]
FOREIGN = ['<x-layout x="0" y="0"/>', "<x-note>kept for the editor</x-note>", '<x-group a="1"><x-item/></x-group>']
INDEXED_RE = re.compile(r"(<!\[CDATA\[.*?\]\]>)|<(?:template|location|branchpoint|transition|label|nail|query)[ >]", re.S)


def with_foreign(xml):
    """a foreign element in front of three of every four template / location / branchpoint / transition / label / nail / query elements
    (so that same-named siblings occur both adjacent and separated); the forms rotate"""
    n = [0]

    def put(m):
        if m.group(1):
            return m.group(0)
        n[0] += 1
        if n[0] % 4 == 0:
            return m.group(0)
        return FOREIGN[n[0] % len(FOREIGN)] + "\n" + m.group(0)
    return INDEXED_RE.sub(put, xml)


def xml_layer(xml, layer):
    if layer == "foreign":
        return with_foreign(xml)
    if "selfclosed" in layer:
        xml = re.sub(r"<location ([^<>]*[^/<>])>\s*</location>", r"<location \1/>", xml)
    if layer.startswith("compact"):
        # white space between two tags only: block texts start after `>` with a non-`<` character or are left alone
        xml = re.sub(r">[ \n]+<(?=[a-z/])", "><", xml)
    return xml
