/-
C09 — the atom / prefix-operator / binary-operator / parenthesis core of the operator parser, as a stand-alone precedence-climbing
parser over an abstract table, emitting the callback trace (core Lean only).  It is the restriction of
`C09Ops.parseE/loopE` to tokens that are atoms, prefix operators, binary operators and parentheses; the parenthesis theorem
(`Lemmas/C09Pratt`, `Props/C09.C09_paren`) is proved for it.
-/
namespace UtapModel.C09.Pratt

inductive PTok where
  | atom (n : Nat) | op (o : Nat) | pre (p : Nat) | lp | rp
  deriving DecidableEq, Repr

/-- callbacks: `expr_identifier/nat n`, `expr_binary o`; the production `'(' Expression ')'` fires none -/
inductive Ev where
  | at (n : Nat) | bi (o : Nat) | un (p : Nat)
  deriving DecidableEq, Repr

structure Tbl where
  bp : Nat → Nat          -- precedence level of a binary operator token
  rassoc : Nat → Bool     -- %right ?
  plevel : Nat → Nat      -- precedence level of the rule of a prefix operator (`%prec`)
  prassoc : Nat → Bool    -- is that level %right ?

/-- binding power the right operand is parsed with (bison: on equal precedence shift iff %right) -/
def Tbl.next (T : Tbl) (o : Nat) : Nat := if T.rassoc o then T.bp o else T.bp o + 1
/-- binding power below which a LEFT operand needs parentheses -/
def Tbl.lctx (T : Tbl) (o : Nat) : Nat := if T.rassoc o then T.bp o + 1 else T.bp o
/-- binding power the operand of a prefix operator is parsed with -/
def Tbl.pbp (T : Tbl) (p : Nat) : Nat := if T.prassoc p then T.plevel p else T.plevel p + 1

mutual
def parseE (T : Tbl) : Nat → Nat → List PTok → Option (List Ev × List PTok)
  | 0, _, _ => none
  | f+1, q, ts =>
    match ts with
    | .atom n :: ts' => loop T f q [.at n] ts'
    | .lp :: ts' =>
      match parseE T f 0 ts' with
      | some (v, .rp :: ts'') => loop T f q v ts''
      | _ => none
    | .pre p :: ts' =>
      match parseE T f (T.pbp p) ts' with
      | some (v, ts'') => loop T f q (v ++ [.un p]) ts''
      | none => none
    | _ => none
def loop (T : Tbl) : Nat → Nat → List Ev → List PTok → Option (List Ev × List PTok)
  | 0, _, _, _ => none
  | f+1, q, lhs, ts =>
    match ts with
    | .op o :: ts' =>
      if T.bp o ≥ q then
        match parseE T f (T.next o) ts' with
        | some (rhs, ts'') => loop T f q (lhs ++ rhs ++ [.bi o]) ts''
        | none => none
      else some (lhs, ts)
    | _ => some (lhs, ts)
end

/-- expression trees with explicit (possibly redundant) parenthesis nodes -/
inductive PExpr where
  | atom (n : Nat)
  | bin (o : Nat) (l r : PExpr)
  | pre (p : Nat) (e : PExpr)
  | paren (e : PExpr)
  deriving DecidableEq, Repr

def toks : PExpr → List PTok
  | .atom n => [.atom n]
  | .bin o l r => toks l ++ [.op o] ++ toks r
  | .pre p e => [.pre p] ++ toks e
  | .paren e => [.lp] ++ toks e ++ [.rp]

/-- the callback trace of a tree: post-order, parentheses contribute nothing -/
def val : PExpr → List Ev
  | .atom n => [.at n]
  | .bin o l r => val l ++ val r ++ [.bi o]
  | .pre p e => val e ++ [.un p]
  | .paren e => val e

/-- the tree is the one the precedence table assigns to its token string: an unparenthesised operator node in a
    context of binding power `ctx` has level ≥ ctx; left operands of a left-associative operator may be of the same
    level, right operands must bind tighter (and conversely for right-associative ones) -/
def WF (T : Tbl) : Nat → PExpr → Prop
  | _, .atom _ => True
  | ctx, .bin o l r => ctx ≤ T.bp o ∧ WF T (T.lctx o) l ∧ WF T (T.next o) r
  | ctx, .pre p e => ctx ≤ T.plevel p ∧ WF T (T.pbp p) e
  | _, .paren e => WF T 0 e

/-- `t'` is `t` with additional parenthesis nodes -/
inductive ParenExt : PExpr → PExpr → Prop
  | atom (n) : ParenExt (.atom n) (.atom n)
  | bin (o) {l l' r r'} : ParenExt l l' → ParenExt r r' → ParenExt (.bin o l r) (.bin o l' r')
  | pre (p) {e e'} : ParenExt e e' → ParenExt (.pre p e) (.pre p e')
  | paren {e e'} : ParenExt e e' → ParenExt (.paren e) (.paren e')
  | wrap {e e'} : ParenExt e e' → ParenExt e (.paren e')

end UtapModel.C09.Pratt
